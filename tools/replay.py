#!/usr/bin/env python3
"""./check <Cxx> --replay <replay.json>: re-run the recorded concrete test natively against the
CURRENT working tree of /repo (woven copy). exit 1 + VIOLATION line if it still fails, else 0.
A replay file without a concrete test re-runs the named harness with the verifier instead."""
import json
import os
import shutil
import subprocess
import sys
import tempfile

HERE = os.path.dirname(os.path.abspath(__file__))
sys.path.insert(0, HERE)
import weave  # noqa: E402
import runner  # noqa: E402


def main():
    prop, path = sys.argv[1], sys.argv[2]
    with open(path) as f:
        rep = json.load(f)
    hname = rep["harness"]
    tests = (rep.get("playback") or {}).get("tests") or []
    if not tests:
        print(f"[{prop}] replay file has no concrete test; re-running harness {hname} with the verifier")
        return subprocess.call([sys.executable, os.path.join(HERE, "runner.py"), prop, "--tier", "thorough", "--only", hname, "--no-evidence"])
    ovs = weave.load_overlays()
    h = next((x for ov in ovs.values() for x in ov.harnesses if x.name == hname), None)
    if h is None:
        print(f"[{prop}] harness {hname} no longer exists")
        return 2
    sel = weave.closure(ovs, [h.unit])
    scratch = tempfile.mkdtemp(prefix=f"eg-replay-{prop}-", dir=os.environ.get("VERIF_SCRATCH") or tempfile.gettempdir())
    try:
        weave.copy_repo(scratch)
        try:
            weave.weave(scratch, sel)
        except weave.LostAnchor as e:
            print(f"[{prop}] LOST-ANCHOR (undecided): {e}")
            return 2
        res = runner.run_native(scratch, h.crate, h.file, h.name, tests)
        print(json.dumps(res, indent=1))
        if res.get("failed_natively"):
            print(f"VIOLATION property={prop} replay={path}")
            return 1
        print(f"[{prop}] replay of {hname}: recorded input no longer fails on the current tree")
        return 0
    finally:
        shutil.rmtree(scratch, ignore_errors=True)


if __name__ == "__main__":
    sys.exit(main())
