#!/bin/bash
# seed_round.sh <prop> <n> [check-prop]: confirm a seeded change (compact summary) and run the quick check against the patched worktree
p=$1; n=$2; cp=${3:-$1}; d=${SEED_OUT:-/tmp/seed-out}/$p/$n
if [ ! -f $d/confirm.txt ]; then /verif/tools/seed_confirm.sh $p $n; fi
python3 - $d/confirm.txt <<'PY'
import sys,re
t=open(sys.argv[1]).read()
a,b=t.split("== patched: suite must pass")
s,c=b.split("== patched: demo must fail")
ok_clean = "test result: ok" in a and "FAILED" not in a
ok_suite = "FAILED" not in s and "error" not in s and "DOES NOT APPLY" not in s and s.count("test result: ok")>=5
ok_demo = "FAILED" in c
print("confirm: clean-demo-pass=%s suite-pass=%s patched-demo-fail=%s" % (ok_clean, ok_suite, ok_demo))
PY
/verif/tools/seed_check.sh $p $n $cp --no-playback
