#!/usr/bin/env python3
"""Print the markdown table of seeded changes (DESIGN.md section 9) from seeded/*/meta.json."""
import glob, json, re
rows = []
for f in sorted(glob.glob("/verif/seeded/*/meta.json")):
    m = json.load(open(f))
    first = (m.get("what_and_needs") or "").strip().split("\n")
    what = " ".join(x.strip() for x in first[:2])[:230]
    det = []
    for cp, c in (m.get("checks_run") or {}).items():
        det.append(f"{cp}: " + (", ".join(c["violations"][:3]) if c["detected"] else "MISSED"))
    rows.append(f"| {m['id']} | {m['property']} | {'yes' if m['confirmed'] else 'no'} | {what} | {'; '.join(det) or 'not run'} |")
print("| seed | property | confirmed by me | change and what it needs (from the author's meta.txt) | caught by (quick check, refuted harnesses) |")
print("|---|---|---|---|---|")
print("\n".join(rows))
