#!/bin/bash
# Regenerate all evidence files on the current tree: ./tools/run_all.sh [tier] [ids...]
cd "$(dirname "$0")/.."
tier=${1:-quick}; shift
ids=${@:-$(python3 -c "import json;print(' '.join(json.load(open('props.json'))))")}
for id in $ids; do
  s=$(date +%s)
  ./check $id --tier $tier > /tmp/runall_$id.log 2>&1
  rc=$?
  echo "$id rc=$rc $(( $(date +%s) - s ))s $(grep -c '^VIOLATION' /tmp/runall_$id.log) violations; $(tail -1 /tmp/runall_$id.log | cut -c1-160)"
done
