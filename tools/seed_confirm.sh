#!/bin/bash
# seed_confirm.sh <prop> <n> : confirm a seeded change in the scratch worktree /tmp/wt-<prop>:
#  existing suite passes with the patch, demo fails with it and passes without. Writes /tmp/seed-out/<prop>/<n>/confirm.txt
p=$1; n=$2; wt=/tmp/wt-$p; d=${SEED_OUT:-/tmp/seed-out}/$p/$n; out=$d/confirm.txt
cd $wt || exit 2
git checkout -q -- . ; rm -f tests/seed_demo.rs
{
echo "== clean: demo must pass"
cp $d/demo.rs tests/seed_demo.rs
cargo test --offline --test seed_demo 2>&1 | grep -E "^test result|^error(\[|:)" | head -3
rm -f tests/seed_demo.rs
echo "== patched: suite must pass"
git apply $d/patch.diff || echo "PATCH DOES NOT APPLY"
cargo test --workspace --offline 2>&1 | grep -E "^test result|FAILED|error(\[|:)" | sort | uniq -c | head -8
echo "== patched: demo must fail"
cp $d/demo.rs tests/seed_demo.rs
cargo test --offline --test seed_demo 2>&1 | grep -E "^test result|^error(\[|:)" | head -3
rm -f tests/seed_demo.rs
git checkout -q -- .
} > $out 2>&1
