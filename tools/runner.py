#!/usr/bin/env python3
"""Run the contract proofs of one property against the current working tree of /repo.

  runner.py <Cxx> [--tier quick|thorough] [--only <harness substring>] [--keep] [--jobs N]

exit 0  every obligation discharged (known findings are printed as KNOWN-FINDING lines)
exit 1  at least one obligation refuted by the verifier; prints
        VIOLATION property=<id> replay=<path> [no-failing-input-found]
exit 2  undecided (lost anchor, build error in woven code, timeout, unwinding assertion,
        vacuity guard tripped, canary passed); never an alarm
"""
import argparse
import glob
import json
import os
import re
import shutil
import subprocess
import sys
import tempfile
import time

HERE = os.path.dirname(os.path.abspath(__file__))
VERIF = os.path.dirname(HERE)
sys.path.insert(0, HERE)
import weave  # noqa: E402

ENV = dict(os.environ, CARGO_NET_OFFLINE="true", CARGO_TERM_COLOR="never", RUSTFLAGS="--cap-lints=warn")
KANI_FLAGS = ["-Z", "function-contracts", "-Z", "stubbing", "-Z", "unstable-options", "--no-assert-contracts"]
DEFAULT_TIMEOUT = {"quick": 600, "thorough": 3600}
if os.environ.get("VERIF_HARNESS_TIMEOUT"):
    DEFAULT_TIMEOUT = {k: int(os.environ["VERIF_HARNESS_TIMEOUT"]) for k in DEFAULT_TIMEOUT}

TRUSTED_BASE = [
    "rustc MIR generation and Kani 0.68 MIR->goto translation (incl. its models of core intrinsics)",
    "CBMC 6.11 symbolic execution and the SAT back end (CaDiCaL unless a harness names another solver)",
    "the weaver (adds lines only; strip(woven) == original is re-checked on every run) and this result parser",
    "spec functions in the overlay modules (they define what 'correct' means; i64/i128 arithmetic, overflow-checked)",
    "Kani proves partial correctness: termination only where unwinding assertions close a loop",
]


DROPS = {"harnesses": set(), "blocks": set(), "notes": [], "attempt": 0}


def log(*a):
    print(*a, flush=True)


def load_findings():
    p = os.path.join(VERIF, "known_findings.json")
    if not os.path.exists(p):
        return {}
    with open(p) as f:
        d = json.load(f)
    return {x["id"]: x for x in d.get("findings", [])}


def select(ovs, prop, tier, only):
    hs = []
    for ov in ovs.values():
        for h in ov.harnesses:
            if prop not in h.props:
                continue
            if tier == "quick" and h.tier != "quick":
                continue
            if only and not any(o in h.name for o in only):
                continue
            hs.append(h)
    return hs


def run_group(scratch, crate, harnesses, cbmc_args, jobs, timeout, tag, tdir_tag=None, kani_extra=""):
    """One cargo-kani invocation. Returns (json or None, log text, seconds, returncode)."""
    cwd = os.path.join(scratch, "core") if crate == "core" else scratch
    out_json = os.path.join(scratch, f"kani-{tag}.json")
    tdir = os.path.join(scratch, f"target-{tdir_tag or crate}")
    cmd = ["cargo", "kani"] + KANI_FLAGS + kani_extra.split() + ["--target-dir", tdir, "-j", str(jobs), "--output-format=terse",
                                            "--harness-timeout", f"{timeout}s", "--export-json", out_json]
    cmd += ["--exact"]
    for h in harnesses:
        cmd += ["--harness", h.qual]
    if cbmc_args:
        cmd += ["--cbmc-args"] + cbmc_args.split()
    t0 = time.time()
    try:
        p = subprocess.run(cmd, cwd=cwd, env=ENV, stdout=subprocess.PIPE, stderr=subprocess.STDOUT, text=True,
                           timeout=timeout * max(1, (len(harnesses) + jobs - 1) // jobs) + 900)
        text, rc = p.stdout, p.returncode
    except subprocess.TimeoutExpired as e:
        text, rc = (e.stdout or "") + "\n[runner] group timeout\n", 124
        if isinstance(text, bytes):
            text = text.decode(errors="replace")
    dt = time.time() - t0
    data = None
    if os.path.exists(out_json):
        try:
            with open(out_json) as f:
                data = json.load(f)
        except Exception as e:  # noqa: BLE001
            text += f"\n[runner] cannot parse {out_json}: {e}\n"
    return data, text, dt, rc, " ".join(cmd)


def codegen_only(scratch, tdir_tag, crate, harnesses, kani_extra=""):
    cwd = os.path.join(scratch, "core") if crate == "core" else scratch
    tdir = os.path.join(scratch, f"target-{tdir_tag}")
    cmd = ["cargo", "kani"] + KANI_FLAGS + kani_extra.split() + ["--target-dir", tdir, "--only-codegen", "--exact"]
    for h in harnesses:
        cmd += ["--harness", h.qual]
    p = subprocess.run(cmd, cwd=cwd, env=ENV, stdout=subprocess.PIPE, stderr=subprocess.STDOUT, text=True, timeout=1800)
    return p.returncode, p.stdout


def loop_labels(scratch, tdir_tag, h):
    """Resolve the //@harness unwindset="<regex>=N;..." annotation to CBMC loop labels by listing the
    loops of the harness's goto binary (labels contain crate hashes, so they are looked up, not stored)."""
    tdir = os.path.join(scratch, f"target-{tdir_tag}")
    suffix = f"{len(h.name)}{h.name}.out"
    cands = [f for f in glob.glob(os.path.join(tdir, "**", "*.out"), recursive=True)
             if f.endswith(suffix) and not f.endswith(".symtab.out")]
    if not cands:
        return None, "goto binary not found"
    p = subprocess.run(["goto-instrument", "--show-loops", cands[0]], stdout=subprocess.PIPE, stderr=subprocess.DEVNULL, text=True, timeout=600)
    loops = []
    cur = None
    for ln in p.stdout.splitlines():
        m = re.match(r"^Loop (\S+):$", ln)
        if m:
            cur = m.group(1)
            continue
        if cur and " function " in ln:
            loops.append((cur, ln.split(" function ", 1)[1].strip()))
            cur = None
    pairs = []
    notes = []
    for item in h.unwindset.split(";"):
        if not item.strip():
            continue
        rx, n = item.rsplit("=", 1)
        hits = [lab for lab, fn in loops if re.search(rx, fn)]
        if not hits:
            # the loop may legitimately be gone in the code under test (then there is nothing to bound);
            # the harness's global #[kani::unwind] still applies to every other loop
            notes.append(f"no loop matches {rx}")
        pairs += [f"{lab}:{int(n)}" for lab in hits]
    if not pairs:
        return "", "; ".join(notes) or "no per-loop bound resolved"
    return ",".join(pairs), f"{len(pairs)} loops bounded individually" + ("; " + "; ".join(notes) if notes else "")


def reap_orphan_solvers():
    """Kani's --harness-timeout kills cbmc but not an SMT solver it spawned (#[kani::solver(z3)]); such an
    orphan (re-parented to pid 1) would spin forever. Kill orphaned z3 processes."""
    try:
        out = subprocess.run(["ps", "-eo", "pid,ppid,comm"], stdout=subprocess.PIPE, text=True).stdout
        for ln in out.splitlines()[1:]:
            f = ln.split()
            if len(f) >= 3 and f[2] == "z3" and f[1] == "1":
                os.kill(int(f[0]), 9)
    except Exception:  # noqa: BLE001
        pass


def memory_watchdog(scratch, stop, cap_gb, total_gb=40):
    """No swap on the box: a cbmc that grows past the cap (or the largest one when all of ours together pass
    total_gb) is killed; Kani then reports the harness as failed without a verdict, which the runner classifies
    NOT-FINISHED. Only processes working in our scratch copy are considered."""
    while not stop.wait(5):
        try:
            out = subprocess.run(["ps", "-eo", "pid,rss,comm,args"], stdout=subprocess.PIPE, text=True).stdout
            mine = []
            for ln in out.splitlines()[1:]:
                f = ln.split(None, 3)
                if len(f) == 4 and f[2] in ("cbmc", "z3", "kissat") and scratch in f[3]:
                    mine.append((int(f[1]), int(f[0]), f[2]))
            mine.sort(reverse=True)
            kill = [m for m in mine if m[0] > cap_gb << 20]
            if not kill and mine and sum(m[0] for m in mine) > total_gb << 20:
                kill = mine[:1]
            for rss, pid, comm in kill:
                log(f"[watchdog] killing {comm} pid {pid} at {rss >> 20} GB (cap {cap_gb} GB per process, {total_gb} GB total)")
                os.kill(pid, 9)
        except Exception:  # noqa: BLE001
            pass


def short(name):
    return name.split("::")[-1]


def digest(data, text):
    """harness short name -> result dict"""
    res = {}
    if not data:
        return res
    stats = {}
    for c in data.get("cbmc", []):
        stats[short(c["harness_id"])] = c.get("cbmc_stats") or {}
    counts = {}
    for c in data.get("property_details", []):
        counts[short(c["harness_id"])] = c.get("property_details") or {}
    for r in data.get("verification_results", {}).get("results", []):
        n = short(r["harness_id"])
        checks = r.get("checks", [])
        failed = [c for c in checks if c.get("status") == "Failure"]
        undet = [c for c in checks if c.get("status") in ("Undetermined", "Error")]
        covers = [c for c in checks if c.get("category") == "cover" or str(c.get("description", "")).startswith("cover condition")]
        res[n] = {
            "status": r.get("status"),
            "duration_s": r.get("duration_ms", 0) / 1000.0,
            "checks_total": len(checks),
            "checks_success": sum(1 for c in checks if c.get("status") == "Success"),
            "checks_unreachable": sum(1 for c in checks if c.get("status") == "Unreachable"),
            "failed": [{"description": c.get("description"), "function": c.get("function"),
                        "location": "{file}:{line}".format(**c.get("location", {"file": "?", "line": "?"}))} for c in failed],
            "undetermined": len(undet),
            "covers": [{"description": c.get("description"), "status": c.get("status")} for c in covers],
            "covers_total": len(covers),
            "covers_satisfied": sum(1 for c in covers if c.get("status") == "Satisfied"),
            "solver_s": stats.get(n, {}).get("runtime_solver_s"),
            "symex_s": stats.get(n, {}).get("runtime_symex_s"),
            "vccs": stats.get(n, {}).get("vccs_generated"),
            "vccs_remaining": stats.get(n, {}).get("vccs_remaining"),
            "counts": counts.get(n, {}),
        }
    for e in data.get("error_details", []):
        n = short(e["harness_id"])
        if n in res:
            res[n]["error_type"] = e.get("error_type")
            res[n]["exit_status"] = e.get("exit_status")
    return res


def is_unwind(f):
    d = (f.get("description") or "")
    return "unwinding assertion" in d or "recursion unwinding" in d


TEST_RE = re.compile(r"(#\[test\]\s*\n\s*fn (kani_concrete_playback_\w+)\(\) \{.*?\n\})", re.S)


def nostd_test(test_src):
    """The crates are #![no_std]: give the generated test access to Vec/vec!."""
    return test_src.replace("let concrete_vals: Vec<Vec<u8>> = vec![",
                            "extern crate std;\n    use std::{vec, vec::Vec};\n    let concrete_vals: Vec<Vec<u8>> = vec![", 1)


def run_native(scratch, crate, file_rel, harness_name, tests, timeout=600):
    """Insert the concrete tests next to the harness in the woven copy and run them natively
    (cargo kani playback = cargo test with the kani library in concrete mode, no CBMC)."""
    cwd = os.path.join(scratch, "core") if crate == "core" else scratch
    path = os.path.join(scratch, file_rel)
    with open(path, encoding="utf-8") as f:
        src = f.read()
    idx = src.find(f"fn {harness_name}(")
    if idx < 0:
        return {"note": "cannot place the concrete test: harness not found in woven file"}
    start = src.rfind("//@harness", 0, idx)
    if start < 0:
        start = src.rfind("\n", 0, idx) + 1
    block = "\n".join(nostd_test(t) for t in tests) + "\n"
    with open(path, "w", encoding="utf-8") as f:
        f.write(src[:start] + block + src[start:])
    cmd2 = ["cargo", "kani", "playback", "-Z", "concrete-playback", "--", f"kani_concrete_playback_{harness_name}"]
    try:
        p2 = subprocess.run(cmd2, cwd=cwd, env=ENV, stdout=subprocess.PIPE, stderr=subprocess.STDOUT, text=True, timeout=timeout)
        out = p2.stdout
        panics = [ln.strip() for ln in out.splitlines() if "panicked at" in ln or ln.strip().startswith("assertion") or "Failed" in ln]
        m = re.search(r"test result: (\w+)\. (\d+) passed; (\d+) failed", out)
        assume_only = ("kani::assume should always hold" in out) and not any("assertion" in x or "overflow" in x for x in panics)
        failed = bool(m and int(m.group(3)) > 0) and not assume_only
        return {"cmd": " ".join(cmd2), "returncode": p2.returncode, "failed_natively": failed,
                "test_result": m.group(0) if m else None,
                "panic_lines": [ln for ln in out.splitlines() if "panicked at" in ln or "assertion failed" in ln or "attempt to" in ln][:10],
                "output_tail": [ln for ln in out.splitlines() if not ln.startswith(("warning", " ")) and ln.strip()][-15:]}
    except subprocess.TimeoutExpired:
        return {"cmd": " ".join(cmd2), "note": "native playback timed out", "failed_natively": False}
    finally:
        with open(path, "w", encoding="utf-8") as f:
            f.write(src)


RESOLVED_UNWINDSET = {}


def playback(scratch, h, timeout=None):
    """Phase 2 for a refuted harness: ask Kani for concrete tests and run them natively on the real code."""
    timeout = timeout or int(os.environ.get("VERIF_PLAYBACK_TIMEOUT", "300"))
    cwd = os.path.join(scratch, "core") if h.crate == "core" else scratch
    tdir = os.path.join(scratch, f"target-{h.crate}-pb")
    cmd = ["cargo", "kani"] + KANI_FLAGS + h.kani.split() + ["-Z", "concrete-playback", "--concrete-playback=print", "--target-dir", tdir,
                                            "--exact", "--harness", h.qual, "--harness-timeout", f"{timeout}s"]
    extra = (h.cbmc.split() if h.cbmc else []) + (["--unwindset", RESOLVED_UNWINDSET[h.name]] if RESOLVED_UNWINDSET.get(h.name) else [])
    if extra:
        cmd += ["--cbmc-args"] + extra
    out = {"cmd": " ".join(cmd), "tests": [], "native": None}
    try:
        p = subprocess.run(cmd, cwd=cwd, env=ENV, stdout=subprocess.PIPE, stderr=subprocess.STDOUT, text=True, timeout=timeout + 120)
        text = p.stdout
    except subprocess.TimeoutExpired:
        out["note"] = "concrete playback generation timed out"
        return out
    keep = [ln for ln in text.splitlines() if "Failed Checks" in ln or ln.strip().startswith("File:") or "VERIFICATION" in ln]
    out["verifier_summary"] = keep[:40]
    tests = [m.group(1) for m in TEST_RE.finditer(text)]
    if not tests:
        out["note"] = "Kani produced no concrete test for this harness"
        return out
    if h.contract_target:
        out["note"] = ("harness is a proof_for_contract harness: Kani's concrete values do not cover the contract "
                       "instrumentation, the native run is attempted but may not reproduce")
    out["tests"] = tests[:4]
    out["native"] = run_native(scratch, h.crate, h.file, h.name, tests[:4])
    return out


def main():
    ap = argparse.ArgumentParser()
    ap.add_argument("prop")
    ap.add_argument("--tier", default=os.environ.get("VERIF_TIER", "quick"), choices=["quick", "thorough"])
    ap.add_argument("--only", nargs="*", default=None)
    ap.add_argument("--keep", action="store_true")
    ap.add_argument("--jobs", type=int, default=int(os.environ.get("VERIF_JOBS", "16")))
    ap.add_argument("--no-playback", action="store_true")
    ap.add_argument("--no-evidence", action="store_true")
    args = ap.parse_args()
    prop, tier = args.prop, args.tier
    seed = int(os.environ.get("VERIF_SEED", "0") or 0)
    t_start = time.time()

    cfg_path = os.path.join(VERIF, "props.json")
    with open(cfg_path) as f:
        cfg = json.load(f)
    pc = cfg.get(prop)
    if pc is None:
        log(f"unknown or unclaimed property {prop}")
        return 2
    findings = load_findings()

    try:
        ovs = weave.load_overlays()
        all_harness_names = {h.name for ov in ovs.values() for h in ov.harnesses}
        if DROPS["harnesses"] or DROPS["blocks"]:
            weave.apply_drops(ovs, DROPS["harnesses"], DROPS["blocks"])
        hs = select(ovs, prop, tier, args.only)
        if not hs:
            log(f"[{prop}] no harness selected")
            return 2
        sel = weave.closure(ovs, sorted({h.unit for h in hs}))
    except weave.OverlayError as e:
        log(f"[{prop}] overlay error: {e}")
        return 2

    base = os.environ.get("VERIF_SCRATCH") or tempfile.gettempdir()
    scratch = tempfile.mkdtemp(prefix=f"eg-verif-{prop}-", dir=base)
    undecided = list(DROPS["notes"])
    import threading
    wd_stop = threading.Event()
    threading.Thread(target=memory_watchdog, args=(scratch, wd_stop, int(os.environ.get("VERIF_MEM_GB", "14"))), daemon=True).start()
    not_finished = []   # resource limits (timeout, out of memory, solver crash): reported, never an alarm, do not change the exit code
    try:
        weave.copy_repo(scratch)
        try:
            wstats = weave.weave(scratch, sel)
        except weave.LostAnchor as e:
            log(f"[{prop}] LOST-ANCHOR (undecided): {e}")
            return finish(prop, tier, seed, pc, [], {}, [], [f"lost anchor: {e}"], t_start, [], args, sel, {}, 2)
        if weave.LOST:
            gone = set()
            for e in weave.LOST:
                gone.update(e["dropped_harnesses"])
                log(f"[{prop}] LOST-ANCHOR of contracted function `{e['function']}` (its contract is not attached; "
                    f"{len(e['dropped_harnesses'])} harnesses that name it are left out and undecided): {e['anchor']}")
                undecided.append(f"contract anchor lost: {e['function']} ({e['anchor']}); harnesses left out: " + ", ".join(sorted(set(e["dropped_harnesses"]))))
            hs = [h for h in hs if h.name not in gone]
            if not hs:
                return finish(prop, tier, seed, pc, [], {}, [], undecided, t_start, [], args, sel, {}, 2)
        log(f"[{prop}] woven {sum(wstats.values())} lines into {len(wstats)} files of a scratch copy; {len(hs)} harnesses, tier {tier}")

        groups = {}
        special = [h for h in hs if h.unwindset]
        for h in hs:
            if not h.unwindset:
                groups.setdefault((h.crate, h.cbmc, h.kani), []).append(h)
        results = {}
        cmds = []
        logs = []
        from concurrent.futures import ThreadPoolExecutor
        n_groups = len(groups) + (1 if special else 0)
        per_group_jobs = max(2, args.jobs // max(1, n_groups))

        def run_special():
            # harnesses with per-loop unwind bounds: one codegen for all of them, then one invocation each
            out = []
            for crate, kx in sorted({(h.crate, h.kani) for h in special}):
                sh = [h for h in special if h.crate == crate and h.kani == kx]
                stag = crate + "-s" + (str(abs(hash(kx)) % 1000) if kx else "")
                rc0, out0 = codegen_only(scratch, stag, crate, sh, kx)
                if rc0 != 0:
                    out.append((None, None, out0, 0, 2, "", f"codegen for per-loop-unwind harnesses of {crate} failed"))
                    continue

                def one(h, crate=crate, kx=kx, stag=stag):
                    us, note = loop_labels(scratch, stag, h)
                    if us is None:
                        return (h, None, f"[runner] {h.name}: {note}", 0, 2, "", f"{h.name}: {note}")
                    tmo = min(h.timeout or DEFAULT_TIMEOUT[tier], int(os.environ.get("VERIF_HARNESS_TIMEOUT", "100000")))
                    RESOLVED_UNWINDSET[h.name] = us
                    data, text, dt, rc, cmd = run_group(scratch, crate, [h], ((h.cbmc + " " if h.cbmc else "") + ("--unwindset " + us if us else "")).strip(), 1, tmo,
                                                        f"{crate}-{h.name}", tdir_tag=stag, kani_extra=kx)
                    return (h, data, text, dt, rc, cmd, None)
                # one single-threaded cbmc per harness: run up to 8 of them side by side (wall time of the quick tier)
                with ThreadPoolExecutor(max_workers=max(per_group_jobs, min(len(sh), 8))) as ex:
                    out += list(ex.map(one, sh))
            return ("special", out)

        def run_normal(item):
            gi, ((crate, cbmc, kx), ghs) = item
            tmo = min(max([h.timeout for h in ghs] + [0]) or DEFAULT_TIMEOUT[tier], int(os.environ.get("VERIF_HARNESS_TIMEOUT", "100000")))
            data, text, dt, rc, cmd = run_group(scratch, crate, ghs, cbmc, per_group_jobs, tmo, f"{crate}-{gi}", tdir_tag=f"{crate}-{gi}", kani_extra=kx)
            return ("normal", (gi, crate, ghs, data, text, dt, rc, cmd))

        tasks = []
        with ThreadPoolExecutor(max_workers=max(1, n_groups)) as ex:
            futs = []
            if special:
                futs.append(ex.submit(run_special))
            for item in enumerate(sorted(groups.items())):
                futs.append(ex.submit(run_normal, item))
            for f in futs:
                tasks.append(f.result())
        for kind, payload in tasks:
            if kind == "special":
                for h, data, text, dt, rc, cmd, err in payload:
                    if cmd:
                        cmds.append(cmd)
                    logs.append(text)
                    if err:
                        undecided.append(err)
                        log("\n".join(text.splitlines()[-25:]))
                        continue
                    r = digest(data, text)
                    log(f"[{prop}] {h.name} (per-loop unwind): {dt:.0f}s, rc={rc}")
                    if not r:
                        log("\n".join(text.splitlines()[-15:]))
                    results.update(r)
            else:
                gi, crate, ghs, data, text, dt, rc, cmd = payload
                cmds.append(cmd)
                logs.append(text)
                r = digest(data, text)
                log(f"[{prop}] group {crate}/{gi}: {len(ghs)} harnesses, {dt:.0f}s, rc={rc}, results for {len(r)}")
                if not r:
                    tail = "\n".join(text.splitlines()[-60:])
                    log(tail)
                    undecided.append(f"group {crate}/{gi}: no results (build error or crash)")
                results.update(r)

        # The woven code does not compile against this tree (a function used by a harness was renamed, removed
        # or changed its signature): leave out exactly the harnesses / overlay blocks the compiler rejects and
        # run again, so that the remaining obligations are still decided on the changed code. What is left out
        # is undecided (exit 2 unless a violation is found).
        failed_builds = [t for t in logs if t and ("could not compile" in t or "Failed to execute cargo" in t)]
        if failed_builds and DROPS["attempt"] < 12:
            dh, db, outside = weave.locate_errors(scratch, "\n".join(failed_builds), ovs, all_harness_names)
            dh -= DROPS["harnesses"]
            db -= DROPS["blocks"]
            if (dh or db) and not outside:
                DROPS["attempt"] += 1
                DROPS["harnesses"] |= dh
                DROPS["blocks"] |= db
                note = ("woven code did not compile; left out (undecided): harnesses " + (", ".join(sorted(dh)) or "-") +
                        "; overlay blocks " + (", ".join(f"{u}@{f}#{n}" for u, f, n in sorted(db)) or "-"))
                DROPS["notes"].append(note)
                log(f"[{prop}] BUILD-ERROR in woven harness code, retry {DROPS['attempt']}: {note}")
                return main()

        # Verus lemma files (spec-level arithmetic over mathematical integers; they never read /repo and a
        # failure there is never a violation: exit 2)
        verus_rows = []
        for vf in pc.get("verus", []) if not args.only else []:
            t0 = time.time()
            try:
                pv = subprocess.run(["verus", os.path.join(VERIF, vf), "--output-json"], stdout=subprocess.PIPE, stderr=subprocess.DEVNULL,
                                    text=True, timeout=600, cwd=scratch)
                jd = json.loads(pv.stdout[pv.stdout.index("{"):])
                vr = jd.get("verification-results", {})
                okv = bool(vr.get("success")) and vr.get("errors", 1) == 0 and vr.get("verified", 0) > 0
            except Exception as e:  # noqa: BLE001
                vr, okv = {"error": str(e)}, False
            cmds.append(f"verus {vf} --output-json")
            verus_rows.append({"harness": f"verus:{vf}", "unit": "verus", "crate": "-", "kind": "lemma", "tier": "quick", "class": "P", "bound": "",
                               "contract_of": "", "expect_fail": False, "status": "Success" if okv else "Failure",
                               "duration_s": round(time.time() - t0, 2), "checks_total": vr.get("verified", 0), "checks_success": vr.get("verified", 0) if okv else 0,
                               "checks_unreachable": 0, "undetermined": 0, "covers_total": 0, "covers_satisfied": 0, "solver_s": None, "symex_s": None, "vccs": vr.get("verified", 0),
                               "outcome": "discharged" if okv else "undecided", "backend": "Verus 0.2026.09.13 / Z3"})
            log(f"[{prop}] verus {vf}: {vr}")
            if not okv:
                undecided.append(f"verus lemma file {vf} did not verify")

        violations = []   # (harness, result)
        known = []
        rows = []
        for h in hs:
            r = results.get(h.name)
            row = {"harness": h.name, "unit": h.unit, "crate": h.crate, "kind": h.kind, "tier": h.tier, "class": h.cls,
                   "bound": h.bound, "contract_of": h.contract_target, "expect_fail": h.expect_fail}
            if r is None:
                row["outcome"] = "no-result"
                undecided.append(f"{h.name}: no result (timeout/crash/build)")
                rows.append(row)
                continue
            row.update({k: r[k] for k in ("status", "duration_s", "checks_total", "checks_success", "checks_unreachable",
                                          "undetermined", "covers_total", "covers_satisfied", "solver_s", "symex_s", "vccs")})
            real_fail = [f for f in r["failed"] if not is_unwind(f)]
            unwind_fail = [f for f in r["failed"] if is_unwind(f)]
            row["failed_checks"] = r["failed"][:10]
            if h.panic:
                # the call must panic with the given message for EVERY input of the harness: the cover placed
                # after the call ("must-not-reach") has to be unsatisfiable and the panic check has to fail
                must_not = [c for c in r["covers"] if "must-not-reach" in (c["description"] or "")]
                others = [c for c in r["covers"] if "must-not-reach" not in (c["description"] or "")]
                def is_expected(f):
                    return any(h.panic in (f.get(k) or "") for k in ("description", "function", "location"))
                expected_f = [f for f in real_fail if is_expected(f)]
                other_f = [f for f in real_fail if not is_expected(f)]
                row["covers_total"] = len(others)
                row["covers_satisfied"] = sum(1 for c in others if c["status"] == "Satisfied")
                if any(c["status"] == "Satisfied" for c in must_not) or other_f:
                    row["outcome"] = "refuted"
                    r2 = dict(r)
                    r2["failed"] = other_f + [{"description": "execution continued after a call that must panic (cover 'must-not-reach' satisfied)", "function": h.name, "location": h.file}
                                              for c in must_not if c["status"] == "Satisfied"]
                    violations.append((h, r2))
                elif expected_f and must_not and all(c["status"] == "Satisfied" for c in others) and others:
                    row["outcome"] = "discharged"
                    row["checks_success"] = r["checks_success"] + len(expected_f)
                else:
                    row["outcome"] = "undecided"
                    undecided.append(f"{h.name}: expected panic '{h.panic}' not established ({r['status']})")
            elif h.expect_fail:
                if real_fail:
                    if h.kind == "canary":
                        row["outcome"] = "canary-failed-as-required"
                    else:
                        row["outcome"] = "known-finding-reproduced"
                        known.append(h)
                elif r["status"] == "Success":
                    if h.kind == "canary":
                        row["outcome"] = "canary-passed"
                        undecided.append(f"{h.name}: vacuity canary passed (preconditions contradictory?)")
                    else:
                        row["outcome"] = "known-finding-not-reproduced"
                elif str(r.get("exit_status")) in ("timeout", "out_of_memory") or str(r.get("exit_status")).startswith("exit_code_"):
                    row["outcome"] = "not-finished"
                    not_finished.append(f"{h.name}: {r.get('exit_status')} (expected-failure harness)")
                else:
                    row["outcome"] = "undecided"
                    undecided.append(f"{h.name}: expected failure but got {r['status']} without refuted check")
            else:
                if real_fail:
                    row["outcome"] = "refuted"
                    violations.append((h, r))
                elif not unwind_fail and not r["undetermined"] and r["status"] != "Success" and not r["failed"] and \
                        (str(r.get("exit_status")) in ("timeout", "out_of_memory") or str(r.get("exit_status")).startswith("exit_code_")):
                    # resource limit: the obligation was neither discharged nor refuted in the time/memory budget
                    row["outcome"] = "not-finished"
                    not_finished.append(f"{h.name}: {r.get('exit_status')} after {r.get('duration_s')} s")
                elif unwind_fail or r["status"] != "Success" or r["undetermined"]:
                    row["outcome"] = "undecided"
                    undecided.append(f"{h.name}: {r['status']} ({'unwinding assertion' if unwind_fail else r.get('exit_status')})")
                elif r["covers_total"] == 0 and h.kind != "canary":
                    row["outcome"] = "undecided"
                    undecided.append(f"{h.name}: no cover!() reachability witness in harness")
                elif r["covers_satisfied"] < r["covers_total"]:
                    row["outcome"] = "undecided"
                    undecided.append(f"{h.name}: cover unsatisfied (vacuous precondition?)")
                elif r["checks_success"] == 0:
                    row["outcome"] = "undecided"
                    undecided.append(f"{h.name}: zero obligations")
                else:
                    row["outcome"] = "discharged"
            rows.append(row)

        rows += verus_rows
        # phase 2: replay files
        vio_lines = []
        os.makedirs(os.path.join(VERIF, "replays", prop), exist_ok=True)
        # concrete playback for at most two refuted harnesses (plain proofs first: Kani's concrete values
        # are reliable there); the others carry the refuted obligation and the verifier's output
        violations.sort(key=lambda hr: (1 if hr[0].contract_target else 0, hr[1].get("duration_s") or 0))
        for vi, (h, r) in enumerate(violations):
            rp = os.path.join(VERIF, "replays", prop, f"{h.name}.json")
            if args.no_playback:
                pb = {"note": "playback disabled"}
            elif vi >= 2:
                pb = {"note": "playback limited to the first two refuted harnesses of a run; see their replay files"}
            else:
                pb = playback(scratch, h)
            confirmed = bool(pb.get("native") and pb["native"].get("failed_natively"))
            rep = {"property": prop, "harness": h.name, "kind": h.kind, "class": h.cls, "contract_of": h.contract_target,
                   "failed_obligations": r["failed"], "harness_source": h.text, "playback": pb,
                   "confirmed_on_real_code": confirmed,
                   "how_to_replay": f"./check {prop} --replay replays/{prop}/{h.name}.json"}
            with open(rp, "w") as f:
                json.dump(rep, f, indent=1)
            suffix = "" if confirmed else " no-failing-input-found"
            vio_lines.append(f"VIOLATION property={prop} replay={rp}{suffix}")
        for h in known:
            fd = findings.get(h.finding)
            if fd and fd.get("status", "open") == "open":
                log(f"KNOWN-FINDING: property={prop} {fd['id']}: {fd['what_fails']}")
            else:
                # a failing witness that is not listed is a violation
                rp = os.path.join(VERIF, "replays", prop, f"{h.name}.json")
                with open(rp, "w") as f:
                    json.dump({"property": prop, "harness": h.name, "note": "witness harness failed but finding is not listed as open",
                               "failed_obligations": results[h.name]["failed"], "harness_source": h.text}, f, indent=1)
                vio_lines.append(f"VIOLATION property={prop} replay={rp} no-failing-input-found")
        n_dis = sum(1 for r in rows if r.get("outcome") == "discharged")
        if not vio_lines and not undecided and n_dis == 0:
            undecided.append("no deciding harness finished within its resource limits")
        rc = 1 if vio_lines else (2 if undecided else 0)
        pc = dict(pc, _not_finished=not_finished)
        return finish(prop, tier, seed, pc, rows, results, vio_lines, undecided, t_start, cmds, args, sel, findings, rc, logs)
    finally:
        wd_stop.set()
        reap_orphan_solvers()
        if args.keep:
            log(f"[{prop}] scratch kept at {scratch}")
        else:
            shutil.rmtree(scratch, ignore_errors=True)


def scan_assumptions(sel, hs_names):
    """Mechanical scan of the woven overlay text for assumptions."""
    out = []
    for ov in sel:
        with open(ov.path, encoding="utf-8") as f:
            t = f.read()
        n_assume = len(re.findall(r"kani::assume\(", t))
        n_stub = len(re.findall(r"kani::stub\(", t))
        n_unwind = len(re.findall(r"kani::unwind\(", t))
        n_sv = len(re.findall(r"stub_verified\(", t))
        out.append(f"overlay {ov.unit}: {n_assume} kani::assume (harness preconditions), {n_stub} kani::stub (unverified stubs), "
                   f"{n_sv} stub_verified (replaced by a contract that has its own proof harness), {n_unwind} kani::unwind")
    return out


def finish(prop, tier, seed, pc, rows, results, vio_lines, undecided, t_start, cmds, args, sel, findings, rc, logs=None):
    for v in vio_lines:
        log(v)
    for u in undecided:
        log(f"[{prop}] UNDECIDED: {u}")
    for u in pc.get("_not_finished", []):
        log(f"[{prop}] NOT-FINISHED (resource limit; not counted, not an alarm): {u}")
    deciding = [r for r in rows if not r.get("expect_fail")]
    oblig = sum(r.get("checks_total", 0) - r.get("checks_unreachable", 0) - r.get("covers_total", 0) for r in deciding)
    disch = sum(r.get("checks_success", 0) for r in deciding if r.get("outcome") == "discharged")
    bounded = [r for r in deciding if r["kind"] == "bounded"]
    unbounded = [r for r in deciding if r["kind"] != "bounded"]
    fns = set()
    for ov in sel:
        for a in ov.attaches:
            if any("kani::requires" in x or "kani::ensures" in x for x in a.lines):
                m = re.search(r"\bfn\s+(\w+)", a.anchor[-1])
                ctx = ""
                if len(a.anchor) > 1:
                    mc = re.search(r"\b(?:impl|trait|mod)\b(?:<[^>]*>)?\s+(?:.*\bfor\s+)?(\w+)", a.anchor[-2])
                    ctx = (mc.group(1) + "::") if mc else ""
                fns.add(f"{a.file}::{ctx}{m.group(1) if m else a.anchor[-1].strip()}")
    ran = {r["harness"] for r in rows}
    hfns = set()
    for ov in sel:
        for h in ov.harnesses:
            if h.name in ran:
                hfns.update(x for x in h.fns if x)
    nontrivial = sum(1 for r in deciding if r.get("outcome") == "discharged" and r.get("checks_success", 0) > 0 and (r.get("vccs") or 0) > 0)
    samples = []
    for r in rows[:400]:
        samples.append({k: r.get(k) for k in ("harness", "kind", "class", "bound", "contract_of", "outcome", "checks_total",
                                              "checks_success", "covers_satisfied", "solver_s", "duration_s") if r.get(k) not in (None, "")})
    ev = {
        "property_id": prop,
        "tier": tier,
        "seed": seed,
        "level": pc["level"],
        "coverage": {
            "obligations": oblig,
            "discharged": disch,
            "checker_cmd": " ; ".join(cmds) if cmds else "cargo kani (not reached)",
            "trusted_base": TRUSTED_BASE + pc.get("trusted_extra", []),
            "evaluations": len(deciding),
            "distinct_nontrivial": nontrivial,
            "rule": "one evaluation = one Kani harness (contract proof, step contract, lemma or bounded stand-in) over fully symbolic inputs; "
                    "non-trivial = verdict SUCCESSFUL with at least one reachable, SAT-checked verification condition and every cover!() satisfied; "
                    "harness names are unique, so distinct = counted once",
            "samples": samples,
            "harnesses_unbounded": len(unbounded),
            "harnesses_bounded_standin": len(bounded),
            "bounds": sorted({r["bound"] for r in bounded if r.get("bound")}),
            "functions_under_contract": sorted(fns),
            "functions_under_harness_level_contract": sorted(hfns - fns),
            "backend": "Kani 0.68.0 -> CBMC 6.11.0 -> CaDiCaL",
            "solver_s_total": round(sum((r.get("solver_s") or 0) for r in rows), 3),
            "undecided": undecided,
            "not_finished_within_resource_limits": pc.get("_not_finished", []),
            "known_findings_reproduced": [r["harness"] for r in rows if r.get("outcome") == "known-finding-reproduced"],
            "canaries_failed_as_required": [r["harness"] for r in rows if r.get("outcome") == "canary-failed-as-required"],
            "not_covered": pc.get("not_covered", []),
            "exhaustive": False,
        },
        "assumptions": scan_assumptions(sel, None) + pc.get("assumptions", []),
        "wall_s": round(time.time() - t_start, 1),
        "violations": len(vio_lines),
    }
    if pc["level"] == "model_checking":
        ev["coverage"]["explanation"] = "level model_checking: at least one deciding obligation is a bounded stand-in (see bounds); unbounded contract proofs are counted separately in harnesses_unbounded"
    if not args.no_evidence and not args.only:
        os.makedirs(os.path.join(VERIF, "evidence"), exist_ok=True)
        with open(os.path.join(VERIF, "evidence", f"{prop}.json"), "w") as f:
            json.dump(ev, f, indent=1)
    nd = sum(1 for r in deciding if r.get("outcome") == "discharged")
    log(f"[{prop}] {nd}/{len(deciding)} deciding harnesses discharged ({disch}/{oblig} obligations), "
        f"{len(vio_lines)} violations, {len(undecided)} undecided, wall {time.time()-t_start:.0f}s, exit {rc}")
    if logs is not None and (rc != 0 or os.environ.get("VERIF_VERBOSE")):
        os.makedirs(os.path.join(VERIF, "replays", prop), exist_ok=True)
        with open(os.path.join(VERIF, "replays", prop, "last_run.log"), "w") as f:
            f.write("\n\n".join(logs))
    return rc


if __name__ == "__main__":
    sys.exit(main())
