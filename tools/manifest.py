#!/usr/bin/env python3
"""Generate MANIFEST.json from props.json (claimed properties) and na.json (not applicable)."""
import json
import os
import sys

HERE = os.path.dirname(os.path.abspath(__file__))
VERIF = os.path.dirname(HERE)
sys.path.insert(0, HERE)
import weave  # noqa: E402


def main():
    with open(os.path.join(VERIF, "props.json")) as f:
        props = json.load(f)
    na_path = os.path.join(VERIF, "na.json")
    na = json.load(open(na_path)) if os.path.exists(na_path) else {}
    ovs = weave.load_overlays()
    all_ids = [json.loads(l)["id"] for l in open(os.path.join(VERIF, "properties.jsonl"))]
    checks = []
    for pid in all_ids:
        if pid not in props:
            continue
        pc = props[pid]
        hs = [h for ov in ovs.values() for h in ov.harnesses if pid in h.props]
        if not hs:
            raise SystemExit(f"{pid} claimed but has no harness")
        checks.append({
            "property_id": pid,
            "quick_cmd": f"./check {pid} --tier quick",
            "thorough_cmd": f"./check {pid} --tier thorough",
            "evidence_file": f"/verif/evidence/{pid}.json",
            "replay_cmd_template": f"./check {pid} --replay {{path}}",
            "engine": "kani-contracts",
            "level_claimed": {"category": pc["level"], "text": pc["text"], "design_ref": pc.get("design_ref", f"DESIGN.md section 4 / {pid}")},
            "level_note": pc["note"],
            "technique": pc.get("technique", "contract-based deductive verification: Kani function contracts / Hoare-triple harnesses on the real code, discharged by CBMC"),
        })
    not_app = []
    for pid in all_ids:
        if pid not in props:
            not_app.append({"property_id": pid, "reason": na.get(pid, "no contract-based check built yet for this property; nothing is claimed")})
    man = {
        "version": 1,
        "setup_cmd": "python3 tools/setup.py",
        "hooks": {
            "guard": "cfg(kani)",
            "enable": "no source hooks are committed in /repo: contract attributes and proof harnesses are woven into a scratch copy of the working tree on every run (tools/weave.py) and compiled by `cargo kani`, which sets cfg(kani)",
            "baseline_off_cmd": "cd /repo && cargo test --workspace --no-fail-fast --offline",
            "source_commits": [],
            "add_only": True,
        },
        "engines": [
            {"name": "kani-contracts", "path": "tools/runner.py", "serves_properties": [c["property_id"] for c in checks],
             "kind_free_text": "Kani 0.68 function contracts (requires/ensures/modifies, proof_for_contract, stub_verified) and Hoare-triple proof harnesses woven into a copy of the real crate; CBMC 6.11 + CaDiCaL/Z3 discharge every obligation; counterexamples replayed natively with cargo kani playback"},
        ],
        "checks": checks,
        "notes": "exit 2 of a check means undecided (lost anchor, build error of woven code, timeout, unwinding assertion); it is never an alarm. See DESIGN.md.",
        "not_applicable": not_app,
    }
    with open(os.path.join(VERIF, "MANIFEST.json"), "w") as f:
        json.dump(man, f, indent=1)
    print(f"MANIFEST.json: {len(checks)} checks, {len(not_app)} not applicable")


if __name__ == "__main__":
    main()
