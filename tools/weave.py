#!/usr/bin/env python3
"""Weaver: copy the current working tree of /repo to a scratch directory and add
contract attributes / proof harness modules from the overlay files in
/verif/contracts.  The weaver only ADDS lines; after weaving it strips what it
added again and compares byte-for-byte with the file in /repo, so the text that is
verified is the code that runs plus annotations.

Overlay syntax (files are *.rs so editors highlight them; they are never compiled
as they stand):

  //@unit <name>                  unit name (default: file stem)
  //@crate core|main              package the harnesses of this overlay live in
  //@needs <unit> [<unit> ...]    other overlays that must be woven too
  //@attach <file> :: <ctx> :: ... :: <target>
  <lines inserted in front of the target line, indented like it>
  //@end
  //@append <file>
  <lines appended to the end of the file>
  //@end

An anchor is resolved by sequential substring search: first line containing
<ctx1>, from there the first line containing <ctx2>, ... ; the last element is
the target line.  Never line numbers.  A missing anchor is a LostAnchor error
(exit code 2 for the caller: undecided, never an alarm).

Inside appended text every harness is preceded by a line
  //@harness prop=C16[,C03] kind=contract|step|lemma|bounded|witness|canary|cover
             tier=quick|thorough class=P|I [expect=fail] [finding=<id>]
             [bound=<text>] [timeout=<s>] [cbmc=<extra cbmc args>] [kani=<extra cargo-kani flags>] [fns=<a;b>]
and followed (after attributes) by `fn <name>`.
"""
import os
import re
import shutil
import subprocess
import sys
from dataclasses import dataclass, field

REPO = os.environ.get("VERIF_REPO", "/repo")
CONTRACTS = os.path.join(os.path.dirname(os.path.dirname(os.path.abspath(__file__))), "contracts")

BEGIN = "// >>>verif-weave"
END = "// <<<verif-weave"


class LostAnchor(Exception):
    pass


class OverlayError(Exception):
    pass


@dataclass
class Attach:
    file: str
    anchor: list
    lines: list
    unit: str
    src: str


@dataclass
class Append:
    file: str
    lines: list
    unit: str
    src: str


@dataclass
class Harness:
    name: str
    unit: str
    crate: str
    props: list
    kind: str
    tier: str
    cls: str
    expect_fail: bool = False
    finding: str = ""
    bound: str = ""
    timeout: int = 0
    cbmc: str = ""
    kani: str = ""
    unwindset: str = ""
    panic: str = ""
    fns: list = field(default_factory=list)
    file: str = ""
    contract_target: str = ""
    text: str = ""
    qual: str = ""


@dataclass
class Overlay:
    path: str
    unit: str
    crate: str = "core"
    needs: list = field(default_factory=list)
    attaches: list = field(default_factory=list)
    appends: list = field(default_factory=list)
    harnesses: list = field(default_factory=list)


def parse_kv(s):
    """key=value pairs; values may be quoted with double quotes."""
    out = {}
    for m in re.finditer(r'(\w+)=("([^"]*)"|\S+)', s):
        out[m.group(1)] = m.group(3) if m.group(3) is not None else m.group(2)
    return out


def parse_overlay(path):
    unit = os.path.splitext(os.path.basename(path))[0]
    ov = Overlay(path=path, unit=unit)
    cur = None
    with open(path, encoding="utf-8") as f:
        lines = f.read().split("\n")
    i = 0
    while i < len(lines):
        ln = lines[i]
        s = ln.strip()
        if cur is None:
            if s.startswith("//@unit "):
                ov.unit = s.split(None, 1)[1].strip()
            elif s.startswith("//@crate "):
                ov.crate = s.split(None, 1)[1].strip()
                if ov.crate not in ("core", "main"):
                    raise OverlayError(f"{path}:{i+1}: crate must be core or main")
            elif s.startswith("//@needs "):
                ov.needs += s.split()[1:]
            elif s.startswith("//@attach "):
                spec = s[len("//@attach "):]
                parts = [p.strip() for p in spec.split(" :: ")]
                if len(parts) < 2:
                    raise OverlayError(f"{path}:{i+1}: attach needs <file> :: <target>")
                cur = Attach(file=parts[0], anchor=parts[1:], lines=[], unit=ov.unit, src=f"{path}:{i+1}")
            elif s.startswith("//@append "):
                cur = Append(file=s.split(None, 1)[1].strip(), lines=[], unit=ov.unit, src=f"{path}:{i+1}")
            elif s.startswith("//@"):
                raise OverlayError(f"{path}:{i+1}: unknown directive {s}")
        else:
            if s == "//@end":
                if isinstance(cur, Attach):
                    ov.attaches.append(cur)
                else:
                    ov.appends.append(cur)
                    ov.harnesses += harnesses_of(cur, ov)
                cur = None
            else:
                cur.lines.append(ln)
        i += 1
    if cur is not None:
        raise OverlayError(f"{path}: unterminated block starting at {cur.src}")
    return ov


def module_path(file_rel):
    """crate-relative module path of a source file (src/a/b.rs -> a::b, src/a/mod.rs -> a, src/lib.rs -> '')"""
    rel = file_rel
    for pre in ("core/src/", "src/"):
        if rel.startswith(pre):
            rel = rel[len(pre):]
            break
    parts = rel[:-3].split("/")
    if parts[-1] in ("mod", "lib"):
        parts = parts[:-1]
    return "::".join(parts)


def harnesses_of(app, ov):
    out = []
    L = app.lines
    for i, ln in enumerate(L):
        s = ln.strip()
        if not s.startswith("//@harness"):
            continue
        kv = parse_kv(s[len("//@harness"):])
        name = None
        target = ""
        j = i + 1
        while j < len(L):
            m = re.match(r"\s*(pub\s+)?fn\s+(\w+)", L[j])
            if m:
                name = m.group(2)
                break
            m2 = re.search(r"proof_for_contract\((.*)\)\]", L[j])
            if m2:
                target = m2.group(1).strip()
            j += 1
        if name is None:
            raise OverlayError(f"{app.src}: //@harness without fn")
        # harness text (for samples in evidence): up to matching close brace at same indent
        indent = len(L[j]) - len(L[j].lstrip())
        k = j
        while k < len(L) and not (L[k].startswith(" " * indent + "}") and len(L[k].rstrip()) == indent + 1):
            k += 1
        text = "\n".join(x[indent:] if len(x) >= indent else x for x in L[i + 1:k + 1])
        # enclosing module: nearest preceding `mod <name> {` line with smaller indentation
        modname = ""
        for k2 in range(i, -1, -1):
            mm = re.match(r"(\s*)(pub(\([^)]*\))?\s+)?mod\s+(\w+)\s*\{", L[k2])
            if mm and len(mm.group(1)) < indent:
                modname = mm.group(4)
                break
        qual = "::".join(x for x in (module_path(app.file), modname, name) if x)
        for req in ("prop", "kind", "tier", "class"):
            if req not in kv:
                raise OverlayError(f"{app.src}: harness {name} lacks {req}=")
        out.append(Harness(
            name=name, unit=ov.unit, crate=ov.crate, props=kv["prop"].split(","), kind=kv["kind"],
            tier=kv["tier"], cls=kv["class"], expect_fail=(kv.get("expect") == "fail"),
            finding=kv.get("finding", ""), bound=kv.get("bound", ""), timeout=int(kv.get("timeout", "0")),
            cbmc=kv.get("cbmc", ""), kani=kv.get("kani", ""), unwindset=kv.get("unwindset", ""), panic=kv.get("panic", ""), fns=[x for x in kv.get("fns", "").split(";") if x],
            file=app.file, contract_target=target, text=text, qual=qual))
    return out


def load_overlays(directory=CONTRACTS):
    ovs = {}
    for fn in sorted(os.listdir(directory)):
        if fn.endswith(".rs"):
            ov = parse_overlay(os.path.join(directory, fn))
            if ov.unit in ovs:
                raise OverlayError(f"duplicate unit {ov.unit}")
            ovs[ov.unit] = ov
    names = {}
    for ov in ovs.values():
        for h in ov.harnesses:
            if h.name in names:
                raise OverlayError(f"duplicate harness name {h.name} in {ov.unit} and {names[h.name]}")
            names[h.name] = ov.unit
    return ovs


def closure(ovs, units):
    todo = list(units)
    seen = []
    while todo:
        u = todo.pop()
        if u in seen:
            continue
        if u not in ovs:
            raise OverlayError(f"unknown unit {u}")
        seen.append(u)
        todo += ovs[u].needs
    return [ovs[u] for u in sorted(seen)]


def copy_repo(dest):
    if os.path.exists(dest):
        shutil.rmtree(dest)
    os.makedirs(dest)
    subprocess.run(["rsync", "-a", "--exclude", "/target", "--exclude", "/.git", "--exclude", "/core/target",
                    REPO + "/", dest + "/"], check=True)


def resolve(lines, anchor, src):
    pos = 0
    for k, a in enumerate(anchor):
        found = None
        for i in range(pos, len(lines)):
            if a in lines[i]:
                found = i
                break
        if found is None:
            raise LostAnchor(f"{src}: anchor element {k+1} '{a}' not found")
        # the next element is searched after the line of this one
        pos = found if k == len(anchor) - 1 else found + 1
    return pos


LOST = []   # filled by weave(): [{"anchor": ..., "function": ..., "dropped_harnesses": [...]}] for tolerated lost contract anchors


def _harness_regions(L):
    """(start, end, name, attribute+body text) of every //@harness function in the lines of an append block"""
    out = []
    for i, ln in enumerate(L):
        if not ln.strip().startswith("//@harness"):
            continue
        j = i + 1
        while j < len(L) and not re.match(r"\s*(pub\s+)?fn\s+(\w+)", L[j]):
            j += 1
        if j >= len(L):
            continue
        name = re.match(r"\s*(pub\s+)?fn\s+(\w+)", L[j]).group(2)
        indent = len(L[j]) - len(L[j].lstrip())
        k = j
        while k < len(L) and not (L[k].startswith(" " * indent + "}") and len(L[k].rstrip()) == indent + 1):
            k += 1
        out.append((i, k, name, "\n".join(L[i + 1:k + 1])))
    return out


def weave(dest, overlays, strict=True):
    """Weave the overlays into the copy at dest. Returns dict file -> number of inserted lines.

    A lost anchor of an *attached function contract* (the function was renamed, removed or its signature line
    changed) is tolerated: that contract is not attached and every harness that names the function
    (proof_for_contract / stub_verified / a direct call) is left out; they are listed in LOST and reported as
    undecided by the runner, the remaining harnesses still run on the changed code. Lost anchors of type
    definitions (Arbitrary derives) and lost files remain fatal (LostAnchor)."""
    del LOST[:]
    per_file = {}
    for ov in overlays:
        for a in ov.attaches:
            per_file.setdefault(a.file, {"attach": [], "append": []})["attach"].append(a)
        for a in ov.appends:
            per_file.setdefault(a.file, {"attach": [], "append": []})["append"].append(a)
    # pre-pass: which attached function contracts have lost their anchor?
    lost_names = {}
    for rel, items in sorted(per_file.items()):
        path = os.path.join(dest, rel)
        if not os.path.exists(path):
            continue
        with open(path, encoding="utf-8") as f:
            flines = f.read().split("\n")
        keep = []
        for a in items["attach"]:
            try:
                resolve(flines, a.anchor, a.src)
                keep.append(a)
            except LostAnchor as e:
                m = re.search(r"\bfn\s+(\w+)", a.anchor[-1])
                if not m or not any("kani::requires" in x or "kani::ensures" in x or "kani::modifies" in x for x in a.lines):
                    raise
                lost_names[m.group(1)] = str(e)
        items["attach"] = keep
    if lost_names:
        for name, why in sorted(lost_names.items()):
            LOST.append({"function": name, "anchor": why, "dropped_harnesses": []})
        pat = {n: re.compile(r"(?<![\w])" + re.escape(n) + r"\s*(::<[^>]*>)?\s*[()]") for n in lost_names}
        # functions whose contract loses its proof harness: harnesses using it through stub_verified go too (fixpoint)
        unproved = {}
        changed = True
        while changed:
            changed = False
            for rel, items in per_file.items():
                for a in items["append"]:
                    drop = []
                    for (i, k, hname, text) in _harness_regions(a.lines):
                        hit = [n for n in lost_names if pat[n].search(text)]
                        hit += [n for n, rx in unproved.items() if rx.search(text)]
                        if hit:
                            drop.append((i, k))
                            for entry in LOST:
                                if entry["function"] in hit or not set(hit) & set(lost_names):
                                    if hname not in entry["dropped_harnesses"]:
                                        entry["dropped_harnesses"].append(hname)
                                    break
                            m = re.search(r"proof_for_contract\((.*?)\)\]", text)
                            if m:
                                tgt = re.sub(r"::<.*>", "", m.group(1).strip()).split("::")[-1]
                                if tgt not in unproved:
                                    unproved[tgt] = re.compile(r"stub_verified\([^)]*(?<![\w])" + re.escape(tgt) + r"\s*(::<[^>]*>)?\s*\)")
                    if drop:
                        changed = True
                        a.lines = [ln for idx, ln in enumerate(a.lines) if not any(i <= idx <= k for (i, k) in drop)]
    stats = {}
    for rel, items in sorted(per_file.items()):
        path = os.path.join(dest, rel)
        orig_path = os.path.join(REPO, rel)
        if not os.path.exists(path):
            raise LostAnchor(f"file {rel} does not exist in the repository")
        with open(path, encoding="utf-8") as f:
            original = f.read()
        lines = original.split("\n")
        inserts = {}
        for a in items["attach"]:
            idx = resolve(lines, a.anchor, a.src)
            indent = lines[idx][: len(lines[idx]) - len(lines[idx].lstrip())]
            block = [indent + BEGIN + " " + a.unit] + [indent + x.strip() for x in a.lines if x.strip()] + [indent + END]
            inserts.setdefault(idx, []).extend(block)
        out = []
        for i, ln in enumerate(lines):
            if i in inserts:
                out += inserts[i]
            out.append(ln)
        # appended blocks go after the last line (file ends with "\n" => last element is "")
        tail = []
        for a in items["append"]:
            tail += [BEGIN + " " + a.unit] + a.lines + [END]
        if tail:
            if out and out[-1] == "":
                out = out[:-1] + tail + [""]
            else:
                out = out + tail
        woven = "\n".join(out)
        # self check: strip == original (and == /repo's file)
        if strip(woven) != original:
            raise OverlayError(f"weaver self-check failed for {rel}")
        with open(orig_path, encoding="utf-8") as f:
            if f.read() != original:
                raise OverlayError(f"scratch copy of {rel} differs from /repo")
        with open(path, "w", encoding="utf-8") as f:
            f.write(woven)
        stats[rel] = len(out) - len(lines)
    return stats


FN_RE = re.compile(r"^\s*(pub(\([^)]*\))?\s+)?(unsafe\s+)?fn\s+(\w+)")


def apply_drops(ovs, drop_harnesses, drop_blocks):
    """Remove harness functions (by name) and whole append blocks ((unit, file, ordinal among the unit's
    appends to that file)) from the loaded overlays. Used when the woven code does not compile against a
    changed tree: what does not compile is left out (undecided), the rest still runs."""
    for ov in ovs.values():
        seen = {}
        kept = []
        for a in ov.appends:
            n = seen.get(a.file, 0)
            seen[a.file] = n + 1
            if (ov.unit, a.file, n) in drop_blocks:
                ov.harnesses = [h for h in ov.harnesses if not (h.file == a.file and h.name in {r[2] for r in _harness_regions(a.lines)})]
                continue
            regs = [r for r in _harness_regions(a.lines) if r[2] in drop_harnesses]
            if regs:
                a.lines = [ln for idx, ln in enumerate(a.lines) if not any(i <= idx <= k for (i, k, _n, _t) in regs)]
                ov.harnesses = [h for h in ov.harnesses if h.name not in drop_harnesses]
            kept.append(a)
        ov.appends = kept


def locate_errors(scratch, text, overlays, harness_names):
    """Map rustc errors of a failed build of the woven tree to what must be left out: returns
    (harness names, append blocks, errors outside woven text)."""
    drop_h, drop_b, outside = set(), set(), []
    locs = set()
    cur_is_error = False
    for ln in text.splitlines():
        if re.match(r"^error(\[E\d+\])?:", ln):
            cur_is_error = True
        elif re.match(r"^warning", ln):
            cur_is_error = False
        m = re.match(r"^\s*--> ([^:]+):(\d+):\d+", ln)
        if m and cur_is_error:
            locs.add((m.group(1), int(m.group(2))))
            cur_is_error = False
    for rel0, line in sorted(locs):
        idx = line - 1
        rel = L = starts = blk = None
        # diagnostics of the core crate may be relative to core/ (cargo kani runs there)
        for cand in (rel0, os.path.join("core", rel0)):
            path = os.path.join(scratch, cand)
            if not os.path.exists(path):
                continue
            with open(path, encoding="utf-8") as f:
                L1 = f.read().split("\n")
            # appended blocks start with BEGIN at column 0
            starts1 = [i for i, x in enumerate(L1) if x.startswith(BEGIN)]
            blk1 = [i for i in starts1 if i <= idx]
            if blk1 and idx < len(L1):
                rel, L, starts, blk = cand, L1, starts1, blk1
                break
        if rel is None:
            outside.append(f"{rel0}:{line}")
            continue
        b0 = blk[-1]
        unit = L[b0][len(BEGIN):].strip()
        # ordinal among this unit's append blocks in this file
        ordinal = len([i for i in starts if i < b0 and L[i][len(BEGIN):].strip() == unit])
        # inside a harness region (//@harness line .. closing brace of its fn)?
        name = None
        for (i, k, hname, _t) in _harness_regions(L):
            if i <= idx <= k:
                name = hname
                break
        if name and name in harness_names:
            drop_h.add(name)
        else:
            drop_b.add((unit, rel, ordinal))
    return drop_h, drop_b, outside


def strip(text):
    out = []
    skipping = False
    for ln in text.split("\n"):
        s = ln.strip()
        if s.startswith(BEGIN):
            skipping = True
            continue
        if s == END:
            skipping = False
            continue
        if not skipping:
            out.append(ln)
    return "\n".join(out)


def main():
    import argparse
    ap = argparse.ArgumentParser()
    ap.add_argument("dest")
    ap.add_argument("--units", nargs="*", default=None)
    args = ap.parse_args()
    ovs = load_overlays()
    units = args.units if args.units else list(ovs)
    sel = closure(ovs, units)
    copy_repo(args.dest)
    try:
        st = weave(args.dest, sel)
    except LostAnchor as e:
        print("LOST-ANCHOR:", e)
        sys.exit(2)
    for k, v in st.items():
        print(f"woven {k}: +{v} lines")
    for ov in sel:
        for h in ov.harnesses:
            print(f"harness {h.name} crate={h.crate} props={','.join(h.props)} kind={h.kind} tier={h.tier}")


if __name__ == "__main__":
    main()
