#!/usr/bin/env python3
"""Collect confirmed seeded changes from /tmp/seed-out into /verif/seeded/<prop>-<n>/ (patch.diff, demo.rs, meta.json)."""
import glob, json, os, re, shutil, sys
OUT = "/verif/seeded"
PROPMAP = {("C02", "1"): "C01", ("C02", "2"): "C02", ("C02", "3"): "C08"}
for d in sorted(glob.glob("/tmp/seed-out/C*/[0-9]")):
    prop_dir, n = d.split("/")[-2], d.split("/")[-1]
    prop = PROPMAP.get((prop_dir, n), prop_dir)
    conf = os.path.join(d, "confirm.txt")
    if not os.path.exists(conf):
        continue
    c = open(conf).read()
    parts = re.split(r"== [^\n]*\n", c)
    def res(txt):
        return re.findall(r"test result: (\w+)\. (\d+) passed; (\d+) failed", txt)
    clean_demo, suite, patched_demo = (res(parts[1]), res(parts[2]), res(parts[3])) if len(parts) >= 4 else ([], [], [])
    ok = bool(clean_demo) and all(r[0] == "ok" for r in clean_demo) and bool(suite) and all(r[0] == "ok" for r in suite) \
        and bool(patched_demo) and any(r[0] == "FAILED" for r in patched_demo) and "DOES NOT APPLY" not in c
    checks = {}
    for f in glob.glob(os.path.join(d, "check_*.txt")):
        cp = os.path.basename(f)[6:-4]
        t = open(f).read()
        checks[cp] = {"violations": sorted(set(re.findall(r"replay=\S*/(\w+)\.json", t))), "summary": (re.findall(r"^\[C\d+\] \d+/.*$", t, re.M) or [""])[-1],
                      "detected": "VIOLATION" in t}
    sid = f"{prop}-{prop_dir}{n}" if prop != prop_dir else f"{prop}-{n}"
    dst = os.path.join(OUT, sid)
    os.makedirs(dst, exist_ok=True)
    shutil.copy(os.path.join(d, "patch.diff"), dst)
    shutil.copy(os.path.join(d, "demo.rs"), dst)
    meta = {
        "id": sid, "property": prop, "confirmed": ok,
        "author": "independent sub-agent (saw only the property text and a scratch worktree)",
        "what_and_needs": open(os.path.join(d, "meta.txt")).read().strip() if os.path.exists(os.path.join(d, "meta.txt")) else "",
        "confirmed_by_me": {"clean_tree_demo": clean_demo, "patched_existing_suite": f"{len(suite)} result lines, all ok" if suite and all(r[0] == 'ok' for r in suite) else suite,
                            "patched_demo": patched_demo,
                            "commands": "tools/seed_confirm.sh: cargo test --offline --test seed_demo (clean) ; git apply patch.diff ; cargo test --workspace --offline ; cargo test --offline --test seed_demo (patched)"},
        "checks_run": checks,
        "how_checked": "tools/seed_check.sh: patch applied in the scratch worktree, VERIF_REPO=<worktree> ./check <prop> --no-evidence (never applied to /repo)",
    }
    json.dump(meta, open(os.path.join(dst, "meta.json"), "w"), indent=1)
    print(sid, "confirmed" if ok else "NOT-CONFIRMED", {k: v["detected"] for k, v in checks.items()})
