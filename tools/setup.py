#!/usr/bin/env python3
"""Setup after a fresh restore: nothing is downloaded or built ahead of time (every check weaves and
builds from /repo's working tree); this only verifies that the tools the checks need are present."""
import os
import shutil
import subprocess
import sys

ok = True
for tool in ("cargo", "rsync", "cbmc", "z3"):
    if shutil.which(tool) is None:
        print(f"missing tool: {tool}")
        ok = False
try:
    out = subprocess.run(["cargo", "kani", "--version"], stdout=subprocess.PIPE, stderr=subprocess.STDOUT, text=True, timeout=120).stdout
    print(out.strip().splitlines()[-1] if out.strip() else "cargo kani: no output")
    if "0.68" not in out:
        print("warning: calibrated with Kani 0.68.0")
except Exception as e:  # noqa: BLE001
    print("cargo kani not runnable:", e)
    ok = False
here = os.path.dirname(os.path.dirname(os.path.abspath(__file__)))
for d in ("evidence", "replays"):
    os.makedirs(os.path.join(here, d), exist_ok=True)
sys.exit(0 if ok else 1)
