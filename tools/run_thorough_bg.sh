#!/bin/bash
# run the thorough tier of the given properties sequentially (no evidence written); summary lines to stdout
cd "$(dirname "$0")/.."
for id in "$@"; do
  s=$(date +%s)
  ./check $id --tier thorough --no-evidence --no-playback > /tmp/thorough_$id.log 2>&1
  rc=$?
  echo "$id rc=$rc $(( $(date +%s) - s ))s; $(grep -c NOT-FINISHED /tmp/thorough_$id.log) not finished; $(tail -1 /tmp/thorough_$id.log | cut -c1-150)"
  grep -E "NOT-FINISHED|UNDECIDED|VIOLATION" /tmp/thorough_$id.log | cut -c1-160
done
