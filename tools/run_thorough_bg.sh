#!/bin/bash
# run the thorough tier of the given properties sequentially (no evidence written); summary lines to stdout
cd "$(dirname "$0")/.."
out=${VERIF_LOGDIR:-/tmp}
for id in "$@"; do
  s=$(date +%s)
  ./check $id --tier thorough --no-evidence --no-playback --jobs ${VERIF_JOBS:-8} > $out/thorough_$id.log 2>&1
  rc=$?
  echo "$id rc=$rc $(( $(date +%s) - s ))s; $(grep -c NOT-FINISHED $out/thorough_$id.log) not finished; $(tail -1 $out/thorough_$id.log | cut -c1-150)"
  grep -E "NOT-FINISHED|UNDECIDED|VIOLATION|watchdog" $out/thorough_$id.log | cut -c1-200
done
