#!/usr/bin/env python3
"""Round 3 (mini round at the end of session 2): /tmp/seed-out3 -> /verif/seeded/<prop>-r3-<n>/."""
import glob, json, os, re, shutil
OUT = "/verif/seeded"
DUP = {("C06", "1"): "C06-r2-1"}
NOTE = {("C19", "1"): "variant of C19-r2-1 (`<` instead of `<=` on the middle vertex row); missed by the 4x4 grid harness, refuted by c19_triangle_row_is_hull_of_all_edges written for it"}
for d in sorted(glob.glob("/tmp/seed-out3/C*/[0-9]")):
    prop, n = d.split("/")[-2], d.split("/")[-1]
    if (prop, n) in DUP:
        print(f"{prop}-r3-{n} | repeat of {DUP[(prop, n)]}")
        continue
    conf = os.path.join(d, "confirm.txt")
    if not os.path.exists(conf):
        print("no confirm", d)
        continue
    c = open(conf).read()
    parts = re.split(r"== [^\n]*\n", c)
    res = lambda t: re.findall(r"test result: (\w+)\. (\d+) passed; (\d+) failed", t)
    clean_demo, suite, patched_demo = (res(parts[1]), res(parts[2]), res(parts[3])) if len(parts) >= 4 else ([], [], [])
    ok = bool(clean_demo) and all(r[0] == "ok" for r in clean_demo) and bool(suite) and all(r[0] == "ok" for r in suite) \
        and bool(patched_demo) and any(r[0] == "FAILED" for r in patched_demo) and "DOES NOT APPLY" not in c
    checks = {}
    for f in sorted(glob.glob(os.path.join(d, "check_*.txt"))) + sorted(glob.glob(os.path.join(d, "final_*.txt"))):
        cp = os.path.basename(f).split("_", 1)[1][:-4]
        t = open(f).read()
        key = cp + (" (first pass)" if os.path.basename(f).startswith("check_") and os.path.exists(os.path.join(d, f"final_{cp}.txt")) else "")
        checks[key] = {"violations": sorted(set(re.findall(r"replay=\S*/(\w+)\.json", t))), "summary": (re.findall(r"^\[C\d+\] \d+/.*$", t, re.M) or [""])[-1],
                       "detected": "VIOLATION" in t}
    sid = f"{prop}-r3-{n}"
    dst = os.path.join(OUT, sid)
    os.makedirs(dst, exist_ok=True)
    shutil.copy(os.path.join(d, "patch.diff"), dst)
    shutil.copy(os.path.join(d, "demo.rs"), dst)
    meta = {"id": sid, "property": prop, "round": 3, "confirmed": ok,
            "author": "independent sub-agent (saw only the property text, a list of already tried change sites, and a scratch worktree)",
            "note": NOTE.get((prop, n), ""),
            "what_and_needs": open(os.path.join(d, "meta.txt")).read().strip() if os.path.exists(os.path.join(d, "meta.txt")) else "",
            "confirmed_by_me": {"clean_tree_demo": clean_demo, "patched_existing_suite": f"{len(suite)} result lines, all ok" if suite and all(r[0] == 'ok' for r in suite) else suite, "patched_demo": patched_demo,
                                "commands": "tools/seed_confirm.sh (SEED_OUT=/tmp/seed-out3)"},
            "checks_run": checks,
            "how_checked": "tools/seed_check.sh: patch applied in the scratch worktree, VERIF_REPO=<worktree> ./check <prop> --no-evidence (never applied to /repo)"}
    json.dump(meta, open(os.path.join(dst, "meta.json"), "w"), indent=1)
    fin = [k for k in checks if "first pass" not in k]
    det = any(checks[k]["detected"] for k in fin)
    print(sid, "|", "confirmed" if ok else "NOT-CONFIRMED", "|", ("caught: " + ", ".join(sorted({v for k in fin for v in checks[k]["violations"]})[:3])) if det else "MISSED")
