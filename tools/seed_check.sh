#!/bin/bash
# seed_check.sh <prop> <n> [check-prop] [extra runner args]: run ./check against the worktree with the seeded patch applied (never touches /repo)
p=$1; n=$2; cp=${3:-$1}; shift; shift; shift
wt=/tmp/wt-$p; d=${SEED_OUT:-/tmp/seed-out}/$p/$n
cd $wt && git checkout -q -- . && git apply $d/patch.diff || exit 2
cd /verif && VERIF_REPO=$wt ./check $cp --no-evidence --jobs 6 "$@" 2>&1 | grep -E "^VIOLATION|^KNOWN|UNDECIDED|^\[$cp\] [0-9]" | cut -c1-200 > $d/check_$cp.txt
git -C $wt checkout -q -- .
cat $d/check_$cp.txt | tail -6
