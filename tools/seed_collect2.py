#!/usr/bin/env python3
"""Round 2: collect confirmed seeded changes from /tmp/seed-out into /verif/seeded/<prop>-r2-<n>/ (patch.diff, demo.rs, meta.json).
A seed listed in DUP is an exact repeat of a round-1 change (same edit proposed again by a fresh agent); it is recorded, not re-kept."""
import glob, json, os, re, shutil, sys
OUT = "/verif/seeded"
DUP = {("C14", "2"): "C14-2", ("C06", "2"): "C06-1", ("C19", "2"): "C19-2", ("C01", "1"): "C01-C021", ("C07", "1"): "C07-1",
       ("C10", "1"): "C10-1", ("C10", "2"): "C10-2", ("C03", "1"): "C03-1", ("C11", "1"): "C11-2", ("C13", "1"): "C13-1", ("C12", "1"): "C12-1"}
# what the state committed at the start of the second session did with the seed (only entries that were not simply "caught")
FIRST = {
 ("C14", "1"): "missed (glyph harness atlas width always a multiple of the cell width)",
 ("C20", "1"): "missed (Debug output not covered) - still missed",
 ("C06", "1"): "missed (ellipse draw arms thorough only; first run also disturbed by an out-of-memory burst)",
 ("C19", "1"): "refuted only by c19_triangle_row, added in this session while the agent was working",
 ("C05", "2"): "refuted by c19_triangle_row, added in this session (c05_triangle_contains alone: 15 min harness)",
 ("C01", "2"): "missed (pixels()==draw() only for stroke areas <= 3x2)",
 ("C02", "1"): "refuted only by c02_thick_segment_edges_box, added in this session",
 ("C07", "2"): "refuted only by c07_transform_impls_open_shapes_images_text, added in this session",
 ("C17", "1"): "undecided (harness code did not compile against the changed signature) until the runner tolerated it",
 ("C17", "2"): "missed (no overflow-free domain lemma in the quick tier)",
 ("C16", "1"): "undecided (lost anchor of the contracted helper `overlaps`) until the weaver tolerated it",
 ("C08", "1"): "refuted only by c08_dotted_rectangle_thin_is_total, added in this session",
 ("C05", "1"): "missed (rounded rectangle rows with four different radii thorough only)",
}
rows = []
for d in sorted(glob.glob("/tmp/seed-out/C*/[0-9]")):
    prop, n = d.split("/")[-2], d.split("/")[-1]
    if (prop, n) in DUP:
        rows.append((f"{prop}-r2-{n}", prop, "repeat of " + DUP[(prop, n)], ""))
        continue
    conf = os.path.join(d, "confirm.txt")
    if not os.path.exists(conf):
        print("no confirm", d)
        continue
    c = open(conf).read()
    parts = re.split(r"== [^\n]*\n", c)
    def res(txt):
        return re.findall(r"test result: (\w+)\. (\d+) passed; (\d+) failed", txt)
    clean_demo, suite, patched_demo = (res(parts[1]), res(parts[2]), res(parts[3])) if len(parts) >= 4 else ([], [], [])
    ok = bool(clean_demo) and all(r[0] == "ok" for r in clean_demo) and bool(suite) and all(r[0] == "ok" for r in suite) \
        and bool(patched_demo) and any(r[0] == "FAILED" for r in patched_demo) and "DOES NOT APPLY" not in c
    checks = {}
    # last check of each property: final.txt (run on the final harness set) wins over the first-pass check_*.txt
    for f in sorted(glob.glob(os.path.join(d, "check_*.txt"))) + sorted(glob.glob(os.path.join(d, "final_*.txt"))):
        cp = os.path.basename(f).split("_", 1)[1][:-4]
        t = open(f).read()
        key = cp + (" (first pass)" if os.path.basename(f).startswith("check_") and os.path.exists(os.path.join(d, f"final_{cp}.txt")) else "")
        checks[key] = {"violations": sorted(set(re.findall(r"replay=\S*/(\w+)\.json", t))), "summary": (re.findall(r"^\[C\d+\] \d+/.*$", t, re.M) or [""])[-1],
                       "detected": "VIOLATION" in t}
    sid = f"{prop}-r2-{n}"
    dst = os.path.join(OUT, sid)
    os.makedirs(dst, exist_ok=True)
    shutil.copy(os.path.join(d, "patch.diff"), dst)
    shutil.copy(os.path.join(d, "demo.rs"), dst)
    meta = {
        "id": sid, "property": prop, "round": 2, "confirmed": ok,
        "author": "independent sub-agent (saw only the property text and a scratch worktree)",
        "what_and_needs": open(os.path.join(d, "meta.txt")).read().strip() if os.path.exists(os.path.join(d, "meta.txt")) else "",
        "confirmed_by_me": {"clean_tree_demo": clean_demo, "patched_existing_suite": f"{len(suite)} result lines, all ok" if suite and all(r[0] == 'ok' for r in suite) else suite,
                            "patched_demo": patched_demo,
                            "commands": "tools/seed_confirm.sh: cargo test --offline --test seed_demo (clean) ; git apply patch.diff ; cargo test --workspace --offline ; cargo test --offline --test seed_demo (patched)"},
        "checks_run": checks,
        "first_pass_on_the_state_before_strengthening": FIRST.get((prop, n), "refuted by obligations that already existed"),
        "how_checked": "tools/seed_check.sh: patch applied in the scratch worktree, VERIF_REPO=<worktree> ./check <prop> --no-evidence (never applied to /repo)",
    }
    json.dump(meta, open(os.path.join(dst, "meta.json"), "w"), indent=1)
    fin = [k for k in checks if "first pass" not in k]
    det = any(checks[k]["detected"] for k in fin)
    first = [k for k in checks if "first pass" in k]
    rows.append((sid, prop, "confirmed" if ok else "NOT-CONFIRMED", ("caught: " + ", ".join(sorted({v for k in fin for v in checks[k]["violations"]})[:3])) if det else "MISSED",
                 ("first pass missed" if first and not any(checks[k]["detected"] for k in first) else "")))
for r in rows:
    print(" | ".join(str(x) for x in r))
