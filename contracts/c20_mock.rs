//! Unit `c20_mock`: MockDisplay is a faithful test oracle (property C20).
//@unit c20_mock
//@crate main
//@needs arb probe

//@append src/mock_display/mod.rs
#[cfg(kani)]
#[allow(missing_docs, trivial_casts, trivial_numeric_casts, unused_qualifications, dead_code, unused)]
mod verif_c20 {
    use super::*;
    use crate::pixelcolor::{BinaryColor, Gray2, Gray4, Gray8, GrayColor, Rgb565};
    use crate::verif_probe::{any_point, sp};

    fn inside(p: Point) -> bool {
        p.x >= 0 && p.y >= 0 && p.x < 64 && p.y < 64
    }
    /// Display state: arbitrary flags, and arbitrary content (empty / Off / On) in two symbolic cells
    /// (c1, c2) that the harness may alias with the cells it operates on and observes; all other cells
    /// are empty. draw_pixel / set_pixel / get_pixel touch one cell by index, so this represents an
    /// arbitrary history as far as the operated and the observed cell are concerned. (A fully symbolic
    /// 4096-cell array makes CBMC 6.11 crash with a segmentation fault.)
    fn any_display() -> MockDisplay<BinaryColor> {
        let mut d = MockDisplay::<BinaryColor>::new();
        let (c1, c2): (Point, Point) = (kani::any(), kani::any());
        kani::assume(inside(c1) && inside(c2));
        d.set_pixel(c1, kani::any());
        d.set_pixel(c2, kani::any());
        d.allow_overdraw = kani::any();
        d.allow_out_of_bounds_drawing = kani::any();
        d
    }

    /// draw_pixel contract, non-panicking part: when the pixel is inside and (overdraw allowed or the
    /// cell is empty) the cell holds the colour afterwards and every other cell is unchanged; an
    /// outside pixel with out-of-bounds drawing allowed changes nothing; no panic occurs.
    //@harness prop=C20 kind=contract tier=quick class=I bound="display content arbitrary in two symbolic cells, empty elsewhere" fns=src/mock_display/mod.rs::MockDisplay::draw_pixel;src/mock_display/mod.rs::MockDisplay::get_pixel
    #[kani::proof]
    fn c20_draw_pixel_contract() {
        let mut d = any_display();
        let p: Point = kani::any();
        let q: Point = kani::any();
        kani::assume(inside(q));
        let c: BinaryColor = kani::any();
        let before_q = d.get_pixel(q);
        let occupied = inside(p) && d.get_pixel(p).is_some();
        kani::assume(!(!inside(p) && !d.allow_out_of_bounds_drawing));
        kani::assume(!(occupied && !d.allow_overdraw));
        let flags = (d.allow_overdraw, d.allow_out_of_bounds_drawing);
        d.draw_pixel(p, c);
        if q == p {
            assert!(d.get_pixel(q) == Some(c));
        } else {
            assert!(d.get_pixel(q) == before_q);
        }
        assert!((d.allow_overdraw, d.allow_out_of_bounds_drawing) == flags);
        kani::cover!(q == p && occupied);
        kani::cover!(!inside(p));
    }
    /// ... and it panics for EVERY out-of-bounds pixel when out-of-bounds drawing is not allowed
    //@harness prop=C20 kind=contract tier=quick class=I panic="MockDisplay::<embedded_graphics_core::pixelcolor::BinaryColor>::draw_pixel"
    #[kani::proof]
    fn c20_draw_pixel_panics_out_of_bounds() {
        let mut d = any_display();
        let p: Point = kani::any();
        kani::assume(!inside(p) && !d.allow_out_of_bounds_drawing);
        kani::cover!(true, "reachable");
        d.draw_pixel(p, kani::any());
        kani::cover!(true, "must-not-reach");
    }
    /// ... and for EVERY second drawing of a cell when overdraw is not allowed
    //@harness prop=C20 kind=contract tier=quick class=I panic="MockDisplay::<embedded_graphics_core::pixelcolor::BinaryColor>::draw_pixel"
    #[kani::proof]
    fn c20_draw_pixel_panics_overdraw() {
        let mut d = any_display();
        let p: Point = kani::any();
        kani::assume(inside(p) && d.get_pixel(p).is_some() && !d.allow_overdraw);
        kani::cover!(true, "reachable");
        d.draw_pixel(p, kani::any());
        kani::cover!(true, "must-not-reach");
    }

    /// set_pixel / get_pixel: store and frame; a new display has no pixel; flags default to strict
    //@harness prop=C20 kind=contract tier=quick class=I fns=src/mock_display/mod.rs::MockDisplay::set_pixel;src/mock_display/mod.rs::MockDisplay::new
    #[kani::proof]
    fn c20_set_get_pixel() {
        let mut d = any_display();
        let p: Point = kani::any();
        let q: Point = kani::any();
        kani::assume(inside(p) && inside(q));
        let v: Option<BinaryColor> = kani::any();
        let before_q = d.get_pixel(q);
        d.set_pixel(p, v);
        assert!(d.get_pixel(q) == if q == p { v } else { before_q });
        let n = MockDisplay::<BinaryColor>::new();
        assert!(n.get_pixel(q).is_none() && !n.allow_overdraw && !n.allow_out_of_bounds_drawing);
        kani::cover!(q == p);
    }

    /// draw_iter == the draw_pixel sequence (two symbolic pixels, overdraw allowed or distinct cells)
    //@harness prop=C20 kind=bounded tier=quick class=I bound="2 symbolic pixels per draw_iter, initially empty display" fns=src/mock_display/mod.rs::MockDisplay::draw_iter
    #[kani::proof]
    #[kani::unwind(4)]
    fn c20_draw_iter() {
        let mut d = MockDisplay::<BinaryColor>::new();
        d.set_allow_overdraw(kani::any());
        d.set_allow_out_of_bounds_drawing(true);
        let px = [Pixel(kani::any::<Point>(), kani::any::<BinaryColor>()), Pixel(kani::any::<Point>(), kani::any::<BinaryColor>())];
        kani::assume(d.allow_overdraw || px[0].0 != px[1].0 || !inside(px[0].0));
        let q: Point = kani::any();
        kani::assume(inside(q));
        d.draw_iter(px.iter().copied()).unwrap();
        let expected = if px[1].0 == q { Some(px[1].1) } else if px[0].0 == q { Some(px[0].1) } else { None };
        assert!(d.get_pixel(q) == expected);
        kani::cover!(px[0].0 == px[1].0 && px[0].0 == q);
    }

    /// eq / diff: two displays that agree everywhere except possibly in one symbolic cell compare equal,
    /// and have an empty diff, exactly when that cell agrees too (all 4096 cells are compared).
    //@harness prop=C20 kind=bounded tier=thorough class=P bound="displays differ from a common base (two arbitrary cells) in at most one symbolic cell; all 4096 cells compared" timeout=3000 fns=src/mock_display/mod.rs::MockDisplay::eq;src/mock_display/mod.rs::MockDisplay::diff
    #[kani::proof]
    #[kani::unwind(4098)]
    fn c20_eq_and_diff() {
        let a = any_display();
        let mut b = a.clone();
        b.allow_overdraw = kani::any();
        let p: Point = kani::any();
        kani::assume(inside(p));
        let v: Option<BinaryColor> = kani::any();
        b.set_pixel(p, v);
        let same = a.get_pixel(p) == v;
        assert!((a == b) == same);
        let q: Point = kani::any();
        kani::assume(inside(q));
        let df = a.diff(&b);
        let dq = df.get_pixel(q);
        if q != p || same {
            assert!(dq.is_none());
        } else {
            assert!(dq == Some(match (a.get_pixel(p), v) { (Some(_), None) => Rgb888::GREEN, (None, Some(_)) => Rgb888::RED, _ => Rgb888::BLUE }));
        }
        kani::cover!(!same);
        kani::cover!(same && v.is_some());
    }

    /// affected_area is the tight bounding box of the touched cells
    //@harness prop=C20 kind=bounded tier=thorough class=P bound="at most two touched cells (symbolic positions); all 4096 cells folded" timeout=3000 fns=src/mock_display/mod.rs::MockDisplay::affected_area
    #[kani::proof]
    #[kani::unwind(4098)]
    fn c20_affected_area() {
        let mut d = MockDisplay::<BinaryColor>::new();
        let (p1, p2): (Point, Point) = (kani::any(), kani::any());
        kani::assume(inside(p1) && inside(p2));
        let n: u8 = kani::any();
        kani::assume(n <= 2);
        if n >= 1 { d.set_pixel(p1, Some(kani::any())); }
        if n >= 2 { d.set_pixel(p2, Some(kani::any())); }
        let r = d.affected_area();
        let expected = match n {
            0 => Rectangle::zero(),
            1 => Rectangle::new(p1, Size::new(1, 1)),
            _ => Rectangle::new(Point::new(p1.x.min(p2.x), p1.y.min(p2.y)), Size::new((p1.x - p2.x).unsigned_abs() + 1, (p1.y - p2.y).unsigned_abs() + 1)),
        };
        assert!(r == expected);
        kani::cover!(n == 2 && p1.x < p2.x && p1.y > p2.y);
    }

    /// ColorMapping: color_to_char / char_to_color round trip for every colour that has a character
    //@harness prop=C20 kind=contract tier=quick class=P fns=src/mock_display/color_mapping.rs::ColorMapping
    #[kani::proof]
    fn c20_color_mapping_round_trip() {
        let b: BinaryColor = kani::any();
        assert!(BinaryColor::char_to_color(BinaryColor::color_to_char(b)) == b);
        let g2 = Gray2::new(kani::any());
        assert!(Gray2::char_to_color(Gray2::color_to_char(g2)) == g2);
        let g4 = Gray4::new(kani::any());
        assert!(Gray4::char_to_color(Gray4::color_to_char(g4)) == g4);
        let g8 = Gray8::new(kani::any());
        let ch = Gray8::color_to_char(g8);
        if ch != '?' {
            assert!(Gray8::char_to_color(ch) == g8);
        } else {
            assert!(g8.luma() & 0xF != g8.luma() >> 4);
        }
        let c = Rgb565::new(kani::any(), kani::any(), kani::any());
        let ch = Rgb565::color_to_char(c);
        if ch != '?' {
            assert!(Rgb565::char_to_color(ch) == c);
        }
        assert!(Rgb565::color_to_char(Rgb565::char_to_color('Y')) == 'Y');
        kani::cover!(ch == 'M');
    }

    /// Sink for the Debug output: counts lines, checks that every pixel row is 64 characters wide and
    /// records the character at one observed (line, column).
    struct Sink {
        line: u32,
        col: u32,
        want_line: u32,
        want_col: u32,
        got: Option<char>,
        last_row_line: u32,
        rows_ok: bool,
    }
    impl fmt::Write for Sink {
        fn write_str(&mut self, s: &str) -> fmt::Result {
            for c in s.chars() {
                self.write_char(c)?;
            }
            Ok(())
        }
        fn write_char(&mut self, c: char) -> fmt::Result {
            if c == '\n' {
                if self.line >= 1 && self.line <= self.last_row_line && self.col != 64 {
                    self.rows_ok = false;
                }
                self.line += 1;
                self.col = 0;
            } else {
                if self.line == self.want_line && self.col == self.want_col {
                    self.got = Some(c);
                }
                self.col += 1;
            }
            Ok(())
        }
    }

    /// Debug output (the pattern format from_pattern reads): header line, then one 64 character line for
    /// every row from 0 to the last row that holds a pixel, the character of each cell at its column
    /// (' ' for an untouched cell), then the count of skipped empty rows and the closing bracket.
    //@harness prop=C20 kind=bounded tier=thorough class=P bound="display with one touched cell (symbolic position and colour); all 64 x 64 cells printed" timeout=3000 kani="--no-assertion-reach-checks" fns=src/mock_display/mod.rs::MockDisplay::fmt
    #[kani::proof]
    #[kani::unwind(66)]
    fn c20_debug_output_rows() {
        use core::fmt::Write;
        let mut d = MockDisplay::<BinaryColor>::new();
        let p: Point = kani::any();
        kani::assume(inside(p));
        let color: BinaryColor = kani::any();
        d.set_pixel(p, Some(color));
        let (wl, wc): (u32, u32) = (kani::any(), kani::any());
        kani::assume(wl >= 1 && wl <= p.y as u32 + 1 && wc < 64);
        let mut sink = Sink { line: 0, col: 0, want_line: wl, want_col: wc, got: None, last_row_line: p.y as u32 + 1, rows_ok: true };
        let r = write!(sink, "{:?}", d);
        assert!(r.is_ok());
        assert!(sink.rows_ok);
        // header + rows 0..=p.y + (skipped rows line unless the last row is used) + closing bracket
        let expected_lines = 1 + (p.y as u32 + 1) + if p.y < 63 { 1 } else { 0 } + 1;
        assert!(sink.line == expected_lines);
        let expected = if wl == p.y as u32 + 1 && wc == p.x as u32 { BinaryColor::color_to_char(color) } else { ' ' };
        assert!(sink.got == Some(expected));
        kani::cover!(p.y == 63);
        kani::cover!(p.y == 5 && wl == 6 && wc == p.x as u32);
    }

    /// Companion of c20_debug_output_rows with a *concrete* cell position (the symbolic-position form does not
    /// finish in 30 min; this one did not finish in 15 min either, so both stay in the thorough tier): content that does not start in row 0, content in the last row, symbolic
    /// colour and symbolic observed output position.
    fn debug_rows_at(p: Point) {
        use core::fmt::Write;
        let mut d = MockDisplay::<BinaryColor>::new();
        let color: BinaryColor = kani::any();
        d.set_pixel(p, Some(color));
        let (wl, wc): (u32, u32) = (kani::any(), kani::any());
        kani::assume(wl >= 1 && wl <= p.y as u32 + 1 && wc < 64);
        let mut sink = Sink { line: 0, col: 0, want_line: wl, want_col: wc, got: None, last_row_line: p.y as u32 + 1, rows_ok: true };
        let r = write!(sink, "{:?}", d);
        assert!(r.is_ok());
        assert!(sink.rows_ok);
        let expected_lines = 1 + (p.y as u32 + 1) + if p.y < 63 { 1 } else { 0 } + 1;
        assert!(sink.line == expected_lines);
        let expected = if wl == p.y as u32 + 1 && wc == p.x as u32 { BinaryColor::color_to_char(color) } else { ' ' };
        assert!(sink.got == Some(expected));
        kani::cover!(wl == p.y as u32 + 1 && wc == p.x as u32);
    }
    //@harness prop=C20 kind=bounded tier=thorough class=P bound="one touched cell at the concrete position (2,5); symbolic colour and observed character" timeout=3000 kani="--no-assertion-reach-checks" fns=src/mock_display/mod.rs::MockDisplay::fmt
    #[kani::proof]
    #[kani::unwind(66)]
    fn c20_debug_output_rows_at_2_5() {
        debug_rows_at(Point::new(2, 5));
    }

    /// eq / diff / affected_area over all 4096 cells, with the touched cells at *concrete* positions (first
    /// row / last row, last column) and symbolic contents (empty, Off, On) -- the symbolic-position forms
    /// exceed 14 GB. One harness per function. None of the three finished in 15 min (4098-fold unwinding of
    /// iterator adaptor chains), so they are thorough-tier attempts like their symbolic-position forms.
    fn two_cells() -> (Point, Point) {
        if kani::any() { (Point::new(0, 0), Point::new(63, 63)) } else { (Point::new(3, 5), Point::new(60, 63)) }
    }
    fn display_with(p1: Point, c1: Option<BinaryColor>, p2: Point, c2: Option<BinaryColor>) -> MockDisplay<BinaryColor> {
        let mut d = MockDisplay::<BinaryColor>::new();
        d.set_pixel(p1, c1);
        d.set_pixel(p2, c2);
        d
    }
    /// two displays compare equal exactly when all cells agree (flags are not part of the comparison)
    //@harness prop=C20 kind=bounded tier=thorough class=P bound="two cells at concrete positions (0,0)/(3,5) and (63,63)/(60,63), symbolic contents; all 4096 cells compared" timeout=3000 kani="--no-assertion-reach-checks" fns=src/mock_display/mod.rs::MockDisplay::eq
    #[kani::proof]
    #[kani::unwind(4098)]
    fn c20_eq_concrete_cells() {
        let (p1, p2) = two_cells();
        let (a1, a2, b1, b2): (Option<BinaryColor>, Option<BinaryColor>, Option<BinaryColor>, Option<BinaryColor>) = (kani::any(), kani::any(), kani::any(), kani::any());
        let a = display_with(p1, a1, p2, a2);
        let mut b = display_with(p1, b1, p2, b2);
        b.allow_overdraw = kani::any();
        assert!((a == b) == (a1 == b1 && a2 == b2));
        kani::cover!(a1 == b1 && a2 != b2);
        kani::cover!(a == b);
    }
    /// diff is empty exactly where the cells agree and uses GREEN / RED / BLUE as documented
    //@harness prop=C20 kind=bounded tier=thorough class=P bound="two cells at concrete positions, symbolic contents; all 4096 cells visited" timeout=3000 kani="--no-assertion-reach-checks" fns=src/mock_display/mod.rs::MockDisplay::diff
    #[kani::proof]
    #[kani::unwind(4098)]
    fn c20_diff_concrete_cells() {
        let (p1, p2) = two_cells();
        let (a1, a2, b1, b2): (Option<BinaryColor>, Option<BinaryColor>, Option<BinaryColor>, Option<BinaryColor>) = (kani::any(), kani::any(), kani::any(), kani::any());
        let a = display_with(p1, a1, p2, a2);
        let b = display_with(p1, b1, p2, b2);
        let df = a.diff(&b);
        let expect = |x: Option<BinaryColor>, y: Option<BinaryColor>| match (x, y) {
            (Some(_), None) => Some(Rgb888::GREEN),
            (None, Some(_)) => Some(Rgb888::RED),
            (Some(s), Some(o)) if s != o => Some(Rgb888::BLUE),
            _ => None,
        };
        assert!(df.get_pixel(p1) == expect(a1, b1) && df.get_pixel(p2) == expect(a2, b2));
        let q: Point = kani::any();
        kani::assume(inside(q) && q != p1 && q != p2);
        assert!(df.get_pixel(q).is_none());
        kani::cover!(expect(a1, b1) == Some(Rgb888::BLUE));
    }
    /// affected_area is the tight bounding box of the set cells
    //@harness prop=C20 kind=bounded tier=thorough class=P bound="two cells at concrete positions, symbolic contents; all 4096 cells folded" timeout=3000 kani="--no-assertion-reach-checks" fns=src/mock_display/mod.rs::MockDisplay::affected_area
    #[kani::proof]
    #[kani::unwind(4098)]
    fn c20_affected_area_concrete_cells() {
        let (p1, p2) = two_cells();
        let (a1, a2): (Option<BinaryColor>, Option<BinaryColor>) = (kani::any(), kani::any());
        let a = display_with(p1, a1, p2, a2);
        let area = a.affected_area();
        let want = match (a1.is_some(), a2.is_some()) {
            (false, false) => Rectangle::zero(),
            (true, false) => Rectangle::new(p1, Size::new(1, 1)),
            (false, true) => Rectangle::new(p2, Size::new(1, 1)),
            (true, true) => Rectangle::new(p1, Size::new((p2.x - p1.x) as u32 + 1, (p2.y - p1.y) as u32 + 1)),
        };
        assert!(area == want);
        kani::cover!(a1.is_some() && a2.is_some() && p1.x == 3);
    }

    //@harness prop=C20 kind=canary tier=quick class=I expect=fail
    #[kani::proof]
    fn c20_canary() {
        let mut d = any_display();
        let p: Point = kani::any();
        d.draw_pixel(p, kani::any());
    }
}
//@end
