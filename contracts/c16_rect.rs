//! Unit `c16_rect`: contracts on `Rectangle`, `Size`/`Point` helpers and `rectangle::Points`
//! (property C16; reused by C03/C05/C06).
//@unit c16_rect
//@crate core
//@needs arb

// ---------------------------------------------------------------- Size / Point leaves
//@attach core/src/geometry/size.rs :: impl Size { :: pub const fn saturating_add(
#[kani::ensures(|r: &Size| r.width as i64 == crate::verif_spec::min(self.width as i64 + other.width as i64, u32::MAX as i64) && r.height as i64 == crate::verif_spec::min(self.height as i64 + other.height as i64, u32::MAX as i64))]
//@end
//@attach core/src/geometry/size.rs :: impl Size { :: pub const fn saturating_sub(
#[kani::ensures(|r: &Size| r.width as i64 == crate::verif_spec::max(self.width as i64 - other.width as i64, 0) && r.height as i64 == crate::verif_spec::max(self.height as i64 - other.height as i64, 0))]
//@end
//@attach core/src/geometry/size.rs :: impl Size { :: pub(crate) const fn div_u32(
#[kani::requires(rhs != 0)]
#[kani::ensures(|r: &Size| r.width == self.width / rhs && r.height == self.height / rhs)]
//@end
//@attach core/src/geometry/size.rs :: impl Size { :: pub(crate) const fn from_bounding_box(
#[kani::requires((corner_1.x as i64 - corner_2.x as i64).abs() <= i32::MAX as i64 && (corner_1.y as i64 - corner_2.y as i64).abs() <= i32::MAX as i64)]
#[kani::ensures(|r: &Size| r.width as i64 == (corner_1.x as i64 - corner_2.x as i64).abs() + 1 && r.height as i64 == (corner_1.y as i64 - corner_2.y as i64).abs() + 1)]
//@end
//@attach core/src/geometry/point.rs :: impl Point { :: pub(crate) const fn sub_size(
#[kani::requires(other.width <= i32::MAX as u32 && other.height <= i32::MAX as u32 && self.x as i64 - other.width as i64 >= i32::MIN as i64 && self.y as i64 - other.height as i64 >= i32::MIN as i64)]
#[kani::ensures(|r: &Point| r.x as i64 == self.x as i64 - other.width as i64 && r.y as i64 == self.y as i64 - other.height as i64)]
//@end
//@attach core/src/geometry/point.rs :: impl Point { :: pub fn component_min(
#[kani::ensures(|r: &Point| r.x == (if self.x < other.x { self.x } else { other.x }) && r.y == (if self.y < other.y { self.y } else { other.y }))]
//@end
//@attach core/src/geometry/point.rs :: impl Point { :: pub fn component_max(
#[kani::ensures(|r: &Point| r.x == (if self.x > other.x { self.x } else { other.x }) && r.y == (if self.y > other.y { self.y } else { other.y }))]
//@end

// ---------------------------------------------------------------- Rectangle
//@attach core/src/primitives/rectangle/mod.rs :: const fn center_offset(
#[kani::ensures(|r: &Size| r.width as i64 == (crate::verif_spec::max(size.width as i64, 1) - 1) / 2 && r.height as i64 == (crate::verif_spec::max(size.height as i64, 1) - 1) / 2)]
//@end
//@attach core/src/primitives/rectangle/mod.rs :: impl Rectangle { :: pub fn with_corners(
#[kani::requires((corner_1.x as i64 - corner_2.x as i64).abs() <= i32::MAX as i64 && (corner_1.y as i64 - corner_2.y as i64).abs() <= i32::MAX as i64)]
#[kani::ensures(|r: &Rectangle| verif_c16::with_corners_post(corner_1, corner_2, r))]
//@end
//@attach core/src/primitives/rectangle/mod.rs :: impl Rectangle { :: pub const fn with_center(
#[kani::requires(center.x as i64 - verif_c16::coff(size.width) >= i32::MIN as i64 && center.y as i64 - verif_c16::coff(size.height) >= i32::MIN as i64)]
#[kani::ensures(|r: &Rectangle| r.size.width == size.width && r.size.height == size.height && r.top_left.x as i64 == center.x as i64 - verif_c16::coff(size.width) && r.top_left.y as i64 == center.y as i64 - verif_c16::coff(size.height))]
//@end
//@attach core/src/primitives/rectangle/mod.rs :: impl Rectangle { :: pub fn center(
#[kani::requires(self.top_left.x as i64 + verif_c16::coff(self.size.width) <= i32::MAX as i64 && self.top_left.y as i64 + verif_c16::coff(self.size.height) <= i32::MAX as i64)]
#[kani::ensures(|r: &Point| r.x as i64 == self.top_left.x as i64 + verif_c16::coff(self.size.width) && r.y as i64 == self.top_left.y as i64 + verif_c16::coff(self.size.height))]
//@end
//@attach core/src/primitives/rectangle/mod.rs :: impl Rectangle { :: pub fn bottom_right(
#[kani::requires(crate::verif_spec::rect_ok(self))]
#[kani::ensures(|r: &Option<Point>| verif_c16::bottom_right_post(self, r))]
//@end
//@attach core/src/primitives/rectangle/mod.rs :: impl Rectangle { :: pub fn contains(
#[kani::requires(crate::verif_spec::rect_ok(self))]
#[kani::ensures(|r: &bool| *r == crate::verif_spec::contains(self, point))]
//@end
//@attach core/src/primitives/rectangle/mod.rs :: impl Rectangle { :: pub fn intersection(
#[kani::requires(crate::verif_spec::rect_ok(self) && crate::verif_spec::rect_ok(other))]
#[kani::ensures(|r: &Rectangle| verif_c16::intersection_post(self, other, r))]
//@end
//@attach core/src/primitives/rectangle/mod.rs :: impl Rectangle { :: pub fn envelope(
#[kani::requires(crate::verif_spec::rect_in(self, verif_c16::ENV_DOM) && crate::verif_spec::rect_in(other, verif_c16::ENV_DOM))]
#[kani::ensures(|r: &Rectangle| verif_c16::envelope_post(self, other, r))]
//@end
//@attach core/src/primitives/rectangle/mod.rs :: impl Rectangle { :: pub fn offset(
#[kani::requires(crate::verif_spec::rect_in(self, verif_c16::OFF_DOM) && (offset as i64).abs() <= verif_c16::OFF_DOM)]
#[kani::ensures(|r: &Rectangle| verif_c16::offset_post(self, offset, r))]
//@end
//@attach core/src/primitives/rectangle/mod.rs :: impl Rectangle { :: pub fn anchor_point(
#[kani::requires(crate::verif_spec::rect_ok(self))]
#[kani::ensures(|r: &Point| r.x as i64 == verif_c16::anchor_x_spec(self, anchor_point.x()) && r.y as i64 == verif_c16::anchor_y_spec(self, anchor_point.y()))]
//@end
//@attach core/src/primitives/rectangle/mod.rs :: impl Rectangle { :: pub fn anchor_x(
#[kani::requires(crate::verif_spec::rect_ok(self))]
#[kani::ensures(|r: &i32| *r as i64 == verif_c16::anchor_x_spec(self, anchor_x))]
//@end
//@attach core/src/primitives/rectangle/mod.rs :: impl Rectangle { :: pub fn anchor_y(
#[kani::requires(crate::verif_spec::rect_ok(self))]
#[kani::ensures(|r: &i32| *r as i64 == verif_c16::anchor_y_spec(self, anchor_y))]
//@end
//@attach core/src/primitives/rectangle/mod.rs :: impl Rectangle { :: pub fn rows(
#[kani::requires(crate::verif_spec::rect_ok(self))]
#[kani::ensures(|r: &Range<i32>| r.start as i64 == crate::verif_spec::top(self) && r.end as i64 == crate::verif_spec::bottom(self))]
//@end
//@attach core/src/primitives/rectangle/mod.rs :: impl Rectangle { :: pub fn columns(
#[kani::requires(crate::verif_spec::rect_ok(self))]
#[kani::ensures(|r: &Range<i32>| r.start as i64 == crate::verif_spec::left(self) && r.end as i64 == crate::verif_spec::right(self))]
//@end
//@attach core/src/primitives/rectangle/mod.rs :: impl Rectangle { :: pub const fn is_zero_sized(
#[kani::ensures(|r: &bool| *r == crate::verif_spec::is_empty(self))]
//@end
//@attach core/src/primitives/rectangle/mod.rs :: fn overlaps(
#[kani::requires(first.start() <= first.end() && second.start() <= second.end())]
#[kani::ensures(|r: &bool| *r == (core::cmp::max(*first.start(), *second.start()) <= core::cmp::min(*first.end(), *second.end())))]
//@end

//@append core/src/primitives/rectangle/mod.rs
#[cfg(kani)]
#[allow(missing_docs, trivial_casts, trivial_numeric_casts, unused_qualifications, dead_code, unused)]
mod verif_c16 {
    use super::*;
    use crate::verif_spec as sp;

    pub const ENV_DOM: i64 = 1 << 29;
    pub const RS_DOM: i64 = 1 << 29;
    pub const OFF_DOM: i64 = 1 << 28;

    /// centre offset of a side of length w: (max(w,1) - 1) / 2
    pub fn coff(w: u32) -> i64 {
        (sp::max(w as i64, 1) - 1) / 2
    }
    /// effective length used by anchors / envelope / resize: zero is treated as one
    pub fn eff(w: u32) -> i64 {
        sp::max(w as i64, 1)
    }
    pub fn with_corners_post(c1: Point, c2: Point, r: &Rectangle) -> bool {
        sp::left(r) == sp::min(c1.x as i64, c2.x as i64)
            && sp::right(r) == sp::max(c1.x as i64, c2.x as i64) + 1
            && sp::top(r) == sp::min(c1.y as i64, c2.y as i64)
            && sp::bottom(r) == sp::max(c1.y as i64, c2.y as i64) + 1
    }
    pub fn bottom_right_post(s: &Rectangle, r: &Option<Point>) -> bool {
        match r {
            None => sp::is_empty(s),
            Some(p) => !sp::is_empty(s) && p.x as i64 == sp::right(s) - 1 && p.y as i64 == sp::bottom(s) - 1,
        }
    }
    /// Closed form of the set intersection: [max lefts, min rights) x [max tops, min bottoms),
    /// empty when one operand is empty or the intervals do not overlap.
    pub fn intersection_post(a: &Rectangle, b: &Rectangle, r: &Rectangle) -> bool {
        let l = sp::max(sp::left(a), sp::left(b));
        let rr = sp::min(sp::right(a), sp::right(b));
        let t = sp::max(sp::top(a), sp::top(b));
        let bb = sp::min(sp::bottom(a), sp::bottom(b));
        if !sp::is_empty(a) && !sp::is_empty(b) && l < rr && t < bb {
            sp::left(r) == l && sp::right(r) == rr && sp::top(r) == t && sp::bottom(r) == bb
        } else {
            sp::is_empty(r) && sp::rect_ok(r)
        }
    }
    pub fn envelope_post(a: &Rectangle, b: &Rectangle, r: &Rectangle) -> bool {
        sp::left(r) == sp::min(sp::left(a), sp::left(b))
            && sp::top(r) == sp::min(sp::top(a), sp::top(b))
            && sp::right(r) == sp::max(sp::left(a) + eff(a.size.width), sp::left(b) + eff(b.size.width))
            && sp::bottom(r) == sp::max(sp::top(a) + eff(a.size.height), sp::top(b) + eff(b.size.height))
    }
    pub fn anchor_x_spec(r: &Rectangle, a: AnchorX) -> i64 {
        sp::left(r) + match a {
            AnchorX::Left => 0,
            AnchorX::Center => (eff(r.size.width) - 1) / 2,
            AnchorX::Right => eff(r.size.width) - 1,
        }
    }
    pub fn anchor_y_spec(r: &Rectangle, a: AnchorY) -> i64 {
        sp::top(r) + match a {
            AnchorY::Top => 0,
            AnchorY::Center => (eff(r.size.height) - 1) / 2,
            AnchorY::Bottom => eff(r.size.height) - 1,
        }
    }
    pub fn resize_dom(r: &Rectangle) -> bool {
        sp::rect_in(r, RS_DOM)
    }
    /// From the statement: the size becomes the requested one, an edge anchor stays fixed,
    /// a centre anchor moves by at most one pixel.
    pub fn resize_x_post(old: &Rectangle, new: &Rectangle, width: u32, a: AnchorX) -> bool {
        let d = anchor_x_spec(new, a) - anchor_x_spec(old, a);
        new.size.width == width
            && match a {
                AnchorX::Left | AnchorX::Right => d == 0,
                AnchorX::Center => -1 <= d && d <= 1,
            }
    }
    pub fn resize_y_post(old: &Rectangle, new: &Rectangle, height: u32, a: AnchorY) -> bool {
        let d = anchor_y_spec(new, a) - anchor_y_spec(old, a);
        new.size.height == height
            && match a {
                AnchorY::Top | AnchorY::Bottom => d == 0,
                AnchorY::Center => -1 <= d && d <= 1,
            }
    }
    /// offset(n): every side of a non-empty side pair moves outwards by n; a side pair that
    /// would become negative collapses to length zero at the old centre; a zero length grows
    /// by 2n to the right of the old top-left (zero is centred like length one).
    pub fn offset_axis(l: i64, w: i64, n: i64, nl: i64, nw: i64) -> bool {
        if w >= 1 && w + 2 * n >= 1 {
            nl == l - n && nl + nw == l + w + n
        } else if w >= 1 {
            nw == 0 && nl == l + (w - 1) / 2
        } else {
            nw == sp::max(2 * n, 0) && nl == l - (sp::max(nw, 1) - 1) / 2
        }
    }
    pub fn offset_post(s: &Rectangle, n: i32, r: &Rectangle) -> bool {
        offset_axis(sp::left(s), s.size.width as i64, n as i64, sp::left(r), r.size.width as i64)
            && offset_axis(sp::top(s), s.size.height as i64, n as i64, sp::top(r), r.size.height as i64)
    }

    // ------------------------------------------------------------ contract proofs
    //@harness prop=C16 kind=contract tier=quick class=P fns=core/src/geometry/size.rs::Size::saturating_add
    #[kani::proof_for_contract(Size::saturating_add)]
    fn c16_size_saturating_add() {
        let a: Size = kani::any();
        let b: Size = kani::any();
        let _ = a.saturating_add(b);
        kani::cover!(true);
    }
    //@harness prop=C16 kind=contract tier=quick class=P
    #[kani::proof_for_contract(Size::saturating_sub)]
    fn c16_size_saturating_sub() {
        let a: Size = kani::any();
        let b: Size = kani::any();
        let _ = a.saturating_sub(b);
        kani::cover!(true);
    }
    //@harness prop=C16 kind=contract tier=quick class=P
    #[kani::proof_for_contract(Size::div_u32)]
    #[kani::solver(z3)]
    fn c16_size_div_u32() {
        let a: Size = kani::any();
        let _ = a.div_u32(kani::any());
        kani::cover!(true);
    }
    //@harness prop=C16 kind=contract tier=quick class=P
    #[kani::proof_for_contract(Size::from_bounding_box)]
    fn c16_size_from_bounding_box() {
        let _ = Size::from_bounding_box(kani::any(), kani::any());
        kani::cover!(true);
    }
    //@harness prop=C16 kind=contract tier=quick class=P
    #[kani::proof_for_contract(Point::sub_size)]
    fn c16_point_sub_size() {
        let p: Point = kani::any();
        let _ = p.sub_size(kani::any());
        kani::cover!(true);
    }
    //@harness prop=C16 kind=contract tier=quick class=P
    #[kani::proof_for_contract(Point::component_min)]
    fn c16_point_component_min() {
        let p: Point = kani::any();
        let _ = p.component_min(kani::any());
        kani::cover!(true);
    }
    //@harness prop=C16 kind=contract tier=quick class=P
    #[kani::proof_for_contract(Point::component_max)]
    fn c16_point_component_max() {
        let p: Point = kani::any();
        let _ = p.component_max(kani::any());
        kani::cover!(true);
    }
    //@harness prop=C16 kind=contract tier=quick class=P
    #[kani::proof_for_contract(center_offset)]
    #[kani::stub_verified(Size::saturating_sub)]
    #[kani::stub_verified(Size::div_u32)]
    fn c16_center_offset() {
        let _ = center_offset(kani::any());
        kani::cover!(true);
    }
    //@harness prop=C16 kind=contract tier=quick class=P
    #[kani::proof_for_contract(Rectangle::with_corners)]
    #[kani::stub_verified(Size::from_bounding_box)]
    fn c16_with_corners() {
        let _ = Rectangle::with_corners(kani::any(), kani::any());
        kani::cover!(true);
    }
    //@harness prop=C16 kind=contract tier=quick class=P
    #[kani::proof_for_contract(Rectangle::with_center)]
    #[kani::stub_verified(center_offset)]
    #[kani::stub_verified(Point::sub_size)]
    fn c16_with_center() {
        let _ = Rectangle::with_center(kani::any(), kani::any());
        kani::cover!(true);
    }
    //@harness prop=C16 kind=contract tier=quick class=P
    #[kani::proof_for_contract(Rectangle::center)]
    #[kani::stub_verified(center_offset)]
    fn c16_center() {
        let r: Rectangle = kani::any();
        let _ = r.center();
        kani::cover!(true);
    }
    //@harness prop=C16 kind=contract tier=quick class=P
    #[kani::proof_for_contract(Rectangle::bottom_right)]
    fn c16_bottom_right() {
        let r: Rectangle = kani::any();
        let _ = r.bottom_right();
        kani::cover!(true);
    }
    //@harness prop=C16 kind=contract tier=quick class=P
    #[kani::proof_for_contract(Rectangle::contains)]
    #[kani::stub_verified(Rectangle::bottom_right)]
    fn c16_contains() {
        let r: Rectangle = kani::any();
        let _ = r.contains(kani::any());
        kani::cover!(true);
    }
    //@harness prop=C16 kind=contract tier=quick class=P
    #[kani::proof_for_contract(overlaps)]
    fn c16_overlaps() {
        let a: i32 = kani::any();
        let b: i32 = kani::any();
        let c: i32 = kani::any();
        let d: i32 = kani::any();
        let _ = overlaps(a..=b, c..=d);
        kani::cover!(true);
    }
    //@harness prop=C16 kind=contract tier=quick class=P
    #[kani::proof_for_contract(Rectangle::intersection)]
    #[kani::stub_verified(Rectangle::bottom_right)]
    #[kani::stub_verified(Rectangle::contains)]
    #[kani::stub_verified(Rectangle::with_corners)]
    #[kani::stub_verified(overlaps)]
    #[kani::stub_verified(Point::component_min)]
    #[kani::stub_verified(Point::component_max)]
    fn c16_intersection() {
        let a: Rectangle = kani::any();
        let b: Rectangle = kani::any();
        let _ = a.intersection(&b);
        kani::cover!(true);
    }
    //@harness prop=C16 kind=contract tier=quick class=P
    #[kani::proof_for_contract(Rectangle::anchor_x)]
    fn c16_anchor_x() {
        let a: Rectangle = kani::any();
        let _ = a.anchor_x(kani::any());
        kani::cover!(true);
    }
    //@harness prop=C16 kind=contract tier=quick class=P
    #[kani::proof_for_contract(Rectangle::anchor_y)]
    fn c16_anchor_y() {
        let a: Rectangle = kani::any();
        let _ = a.anchor_y(kani::any());
        kani::cover!(true);
    }
    //@harness prop=C16 kind=contract tier=quick class=P
    #[kani::proof_for_contract(Rectangle::anchor_point)]
    #[kani::stub_verified(Rectangle::anchor_x)]
    #[kani::stub_verified(Rectangle::anchor_y)]
    fn c16_anchor_point() {
        let a: Rectangle = kani::any();
        let _ = a.anchor_point(kani::any());
        kani::cover!(true);
    }
    //@harness prop=C16,C08 kind=contract tier=quick class=P
    #[kani::proof_for_contract(Rectangle::envelope)]
    #[kani::stub_verified(Rectangle::anchor_point)]
    #[kani::stub_verified(Rectangle::with_corners)]
    #[kani::stub_verified(Point::component_min)]
    #[kani::stub_verified(Point::component_max)]
    fn c16_envelope() {
        let a: Rectangle = kani::any();
        let b: Rectangle = kani::any();
        let _ = a.envelope(&b);
        kani::cover!(true);
    }
    // resized*: harness-level contracts (Hoare triples on the real functions). They write through
    // `&mut` internally; Kani's contract instrumentation (DFCC) costs ~60-170 s there, a plain
    // harness with the same pre/postcondition 3 s.
    //@harness prop=C16 kind=contract tier=quick class=P fns=core/src/primitives/rectangle/mod.rs::Rectangle::resized;core/src/primitives/rectangle/mod.rs::Rectangle::resize_width_mut;core/src/primitives/rectangle/mod.rs::Rectangle::resize_height_mut
    #[kani::proof]
    fn c16_resized() {
        let a: Rectangle = kani::any();
        let size: Size = kani::any();
        let ap: AnchorPoint = kani::any();
        kani::assume(resize_dom(&a) && size.width <= RS_DOM as u32 && size.height <= RS_DOM as u32);
        let r = a.resized(size, ap);
        assert!(resize_x_post(&a, &r, size.width, ap.x()));
        assert!(resize_y_post(&a, &r, size.height, ap.y()));
        // the anchor point itself is fixed for the eight edge/corner anchors
        if ap.x() != AnchorX::Center && ap.y() != AnchorY::Center {
            assert!(r.anchor_point(ap) == a.anchor_point(ap));
        }
        kani::cover!(true);
    }
    //@harness prop=C16 kind=contract tier=quick class=P fns=core/src/primitives/rectangle/mod.rs::Rectangle::resized_width
    #[kani::proof]
    fn c16_resized_width() {
        let a: Rectangle = kani::any();
        let w: u32 = kani::any();
        let ax: AnchorX = kani::any();
        kani::assume(resize_dom(&a) && w <= RS_DOM as u32);
        let r = a.resized_width(w, ax);
        assert!(resize_x_post(&a, &r, w, ax) && r.top_left.y == a.top_left.y && r.size.height == a.size.height);
        kani::cover!(true);
    }
    //@harness prop=C16 kind=contract tier=quick class=P fns=core/src/primitives/rectangle/mod.rs::Rectangle::resized_height
    #[kani::proof]
    fn c16_resized_height() {
        let a: Rectangle = kani::any();
        let h: u32 = kani::any();
        let ay: AnchorY = kani::any();
        kani::assume(resize_dom(&a) && h <= RS_DOM as u32);
        let r = a.resized_height(h, ay);
        assert!(resize_y_post(&a, &r, h, ay) && r.top_left.x == a.top_left.x && r.size.width == a.size.width);
        kani::cover!(true);
    }
    //@harness prop=C16,C08 kind=contract tier=quick class=P
    #[kani::proof_for_contract(Rectangle::offset)]
    #[kani::stub_verified(Rectangle::center)]
    #[kani::stub_verified(Rectangle::with_center)]
    #[kani::stub_verified(Size::saturating_add)]
    #[kani::stub_verified(Size::saturating_sub)]
    fn c16_offset() {
        let a: Rectangle = kani::any();
        let _ = a.offset(kani::any());
        kani::cover!(true);
    }
    //@harness prop=C16 kind=contract tier=quick class=P
    #[kani::proof_for_contract(Rectangle::rows)]
    fn c16_rows() {
        let a: Rectangle = kani::any();
        let _ = a.rows();
        kani::cover!(true);
    }
    //@harness prop=C16 kind=contract tier=quick class=P
    #[kani::proof_for_contract(Rectangle::columns)]
    fn c16_columns() {
        let a: Rectangle = kani::any();
        let _ = a.columns();
        kani::cover!(true);
    }
    //@harness prop=C16 kind=contract tier=quick class=P
    #[kani::proof_for_contract(Rectangle::is_zero_sized)]
    fn c16_is_zero_sized() {
        let a: Rectangle = kani::any();
        let _ = a.is_zero_sized();
        kani::cover!(true);
    }

    // ------------------------------------------------------------ property-level lemmas
    // (statement of C16, derived from the contracts: the callee is replaced by its contract)

    /// intersection == set intersection, pointwise for an arbitrary probe point; symmetric as a
    /// point set; contained in both; zero sized iff there is no common point.
    //@harness prop=C16 kind=lemma tier=quick class=P
    #[kani::proof]
    #[kani::stub_verified(Rectangle::intersection)]
    fn c16_lemma_intersection_is_set_intersection() {
        let a: Rectangle = kani::any();
        let b: Rectangle = kani::any();
        let q: Point = kani::any();
        kani::assume(sp::rect_ok(&a) && sp::rect_ok(&b));
        let i = a.intersection(&b);
        let j = b.intersection(&a);
        assert!(sp::contains(&i, q) == (sp::contains(&a, q) && sp::contains(&b, q)));
        assert!(sp::contains(&j, q) == sp::contains(&i, q));
        // zero sized iff no common point: a witness point exists when not empty
        if !sp::is_empty(&i) {
            assert!(sp::contains(&a, i.top_left) && sp::contains(&b, i.top_left));
        } else {
            assert!(!(sp::contains(&a, q) && sp::contains(&b, q)));
        }
        kani::cover!(!sp::is_empty(&i));
        kani::cover!(sp::is_empty(&i) && !sp::is_empty(&a) && !sp::is_empty(&b));
    }

    /// Same statement on the real bodies of everything intersection() calls (no stubs).
    //@harness prop=C16,C08 kind=lemma tier=quick class=P
    #[kani::proof]
    fn c16_lemma_intersection_real_bodies() {
        let a: Rectangle = kani::any();
        let b: Rectangle = kani::any();
        let q: Point = kani::any();
        kani::assume(sp::rect_ok(&a) && sp::rect_ok(&b));
        let i = a.intersection(&b);
        let j = b.intersection(&a);
        assert!(i.contains(q) == (a.contains(q) && b.contains(q)));
        assert!(j.contains(q) == i.contains(q));
        assert!(i.is_zero_sized() || (a.contains(i.top_left) && b.contains(i.top_left)));
        kani::cover!(!i.is_zero_sized());
    }

    /// envelope contains both operands (zero size treated as one) and is the smallest such
    /// rectangle: any rectangle e2 that contains the corner points of both contains the envelope.
    //@harness prop=C16 kind=lemma tier=quick class=P
    #[kani::proof]
    #[kani::stub_verified(Rectangle::envelope)]
    fn c16_lemma_envelope_smallest() {
        let a: Rectangle = kani::any();
        let b: Rectangle = kani::any();
        let q: Point = kani::any();
        kani::assume(sp::rect_in(&a, ENV_DOM) && sp::rect_in(&b, ENV_DOM));
        let e = a.envelope(&b);
        let a1 = Rectangle::new(a.top_left, Size::new(eff(a.size.width) as u32, eff(a.size.height) as u32));
        let b1 = Rectangle::new(b.top_left, Size::new(eff(b.size.width) as u32, eff(b.size.height) as u32));
        if sp::contains(&a1, q) || sp::contains(&b1, q) {
            assert!(sp::contains(&e, q));
        }
        let e2: Rectangle = kani::any();
        kani::assume(sp::rect_ok(&e2));
        let corners_in = |r: &Rectangle| {
            sp::contains(&e2, r.top_left)
                && sp::contains(&e2, Point::new((sp::right(r) - 1) as i32, (sp::bottom(r) - 1) as i32))
        };
        if corners_in(&a1) && corners_in(&b1) && sp::contains(&e, q) {
            assert!(sp::contains(&e2, q));
        }
        kani::cover!(corners_in(&a1) && corners_in(&b1));
    }

    /// with_center(center(), size) is the identity
    //@harness prop=C16 kind=lemma tier=quick class=P
    #[kani::proof]
    #[kani::stub_verified(Rectangle::center)]
    #[kani::stub_verified(Rectangle::with_center)]
    fn c16_lemma_with_center_center_identity() {
        let a: Rectangle = kani::any();
        kani::assume(sp::rect_ok(&a));
        let b = Rectangle::with_center(a.center(), a.size);
        assert!(a == b);
        kani::cover!(true);
    }

    /// offset(n) moves every side by n (non-empty rectangle that does not collapse)
    //@harness prop=C16 kind=lemma tier=quick class=P
    #[kani::proof]
    #[kani::stub_verified(Rectangle::offset)]
    fn c16_lemma_offset_moves_every_side() {
        let a: Rectangle = kani::any();
        let n: i32 = kani::any();
        let q: Point = kani::any();
        kani::assume(sp::rect_in(&a, OFF_DOM) && (n as i64).abs() <= OFF_DOM && sp::pt_in(q, 1 << 30));
        kani::assume(!sp::is_empty(&a));
        kani::assume(a.size.width as i64 + 2 * n as i64 >= 1 && a.size.height as i64 + 2 * n as i64 >= 1);
        let r = a.offset(n);
        // q is in the result iff it is within n of the original in the max norm
        let n = n as i64;
        let inside = sp::left(&a) - n <= q.x as i64
            && (q.x as i64) < sp::right(&a) + n
            && sp::top(&a) - n <= q.y as i64
            && (q.y as i64) < sp::bottom(&a) + n;
        assert!(sp::contains(&r, q) == inside);
        kani::cover!(n < 0);
        kani::cover!(n > 0);
    }

    /// rows()/columns() are the projections of contains(); bottom_right / anchor points agree.
    //@harness prop=C16,C08 kind=lemma tier=quick class=P
    #[kani::proof]
    fn c16_lemma_rows_columns_projections() {
        let a: Rectangle = kani::any();
        let q: Point = kani::any();
        kani::assume(sp::rect_ok(&a));
        let rows = a.rows();
        let cols = a.columns();
        assert!((rows.contains(&q.y) && cols.contains(&q.x)) == a.contains(q));
        if let Some(br) = a.bottom_right() {
            assert!(br == a.anchor_point(AnchorPoint::BottomRight));
            assert!(a.contains(br) && !a.contains(br + Point::new(1, 0)) && !a.contains(br + Point::new(0, 1)));
            assert!(Rectangle::with_corners(a.top_left, br) == a);
            assert!(Rectangle::with_corners(br, a.top_left) == a);
        }
        assert!(a.anchor_point(AnchorPoint::TopLeft) == a.top_left);
        kani::cover!(a.bottom_right().is_some());
    }

    /// Vacuity canary: same preconditions, a claim that is false (intersection equals first operand).
    //@harness prop=C16 kind=canary tier=quick class=P expect=fail
    #[kani::proof]
    fn c16_canary() {
        let a: Rectangle = kani::any();
        let b: Rectangle = kani::any();
        kani::assume(sp::rect_ok(&a) && sp::rect_ok(&b));
        let i = a.intersection(&b);
        assert!(i == a);
    }
}
//@end

// ---------------------------------------------------------------- rectangle::Points
//@attach core/src/primitives/rectangle/points.rs :: impl Points { :: fn new(
#[kani::requires(crate::verif_spec::rect_ok(rectangle))]
#[kani::ensures(|r: &Points| verif_c16p::inv(r) && verif_c16p::new_post(rectangle, r))]
//@end
//@attach core/src/primitives/rectangle/points.rs :: impl Iterator for Points { :: fn next(
#[kani::requires(verif_c16p::inv(self))]
#[kani::modifies(self)]
#[kani::ensures(|r: &Option<Point>| verif_c16p::inv(self) && verif_c16p::next_post(&old(self.clone()), self, r))]
//@end

//@append core/src/primitives/rectangle/points.rs
#[cfg(kani)]
#[allow(missing_docs, trivial_casts, trivial_numeric_casts, unused_qualifications, dead_code, unused)]
pub(crate) mod verif_c16p {
    use super::*;
    use crate::geometry::Size;
    use crate::verif_spec as sp;

    impl kani::Arbitrary for Points {
        fn any() -> Self {
            Points { x: kani::any::<i32>()..kani::any::<i32>(), y: kani::any::<i32>()..kani::any::<i32>(), x_start: kani::any() }
        }
    }

    /// Representation invariant: the current column lies in [x_start, x.end], and a non-empty
    /// row range implies a non-empty column range (otherwise next() would spin over empty rows).
    pub fn inv(s: &Points) -> bool {
        s.x_start <= s.x.start && s.x.start <= s.x.end && s.y.start <= s.y.end && (s.y.start == s.y.end || s.x_start < s.x.end)
    }
    /// Abstract view: q is still to be emitted.
    pub fn remaining(s: &Points, q: Point) -> bool {
        s.y.start <= q.y && q.y < s.y.end && s.x_start <= q.x && q.x < s.x.end && (q.y > s.y.start || q.x >= s.x.start)
    }
    pub fn new_post(r: &Rectangle, s: &Points) -> bool {
        // the remaining set is exactly the point set of the rectangle: stated on the representation
        if sp::is_empty(r) {
            s.y.start == s.y.end
        } else {
            s.x_start as i64 == sp::left(r) && s.x.start == s.x_start && s.x.end as i64 == sp::right(r)
                && s.y.start as i64 == sp::top(r) && s.y.end as i64 == sp::bottom(r)
        }
    }
    /// Step: the output is the row-major minimum of the remaining set and is removed from it;
    /// None only when the remaining set is empty. Stated in closed form on the representation
    /// (full frame), the set-level reading is proved by c16_points_step_is_row_major_successor.
    pub fn next_post(o: &Points, n: &Points, r: &Option<Point>) -> bool {
        let frame = n.x.end == o.x.end && n.y.end == o.y.end && n.x_start == o.x_start;
        if o.y.start == o.y.end {
            frame && r.is_none() && n.y.start == n.y.end
        } else if o.x.start < o.x.end {
            frame && *r == Some(Point::new(o.x.start, o.y.start)) && n.x.start == o.x.start + 1 && n.y.start == o.y.start
        } else if o.y.start + 1 < o.y.end {
            frame && *r == Some(Point::new(o.x_start, o.y.start + 1)) && n.x.start == o.x_start + 1 && n.y.start == o.y.start + 1
        } else {
            frame && r.is_none() && n.y.start == n.y.end
        }
    }

    //@harness prop=C16,C05 kind=contract tier=quick class=P
    #[kani::proof_for_contract(Points::new)]
    fn c16_points_new() {
        let r: Rectangle = kani::any();
        let _ = Points::new(&r);
        kani::cover!(true);
    }

    /// `while` runs at most twice under the invariant: unwinding assertion on => complete.
    //@harness prop=C16,C05 kind=step tier=quick class=I
    #[kani::proof_for_contract(<Points as core::iter::Iterator>::next)]
    #[kani::unwind(4)]
    fn c16_points_next_step() {
        let mut s: Points = kani::any();
        let _ = s.next();
        kani::cover!(true);
    }

    /// Set-level reading of the step contract for an arbitrary probe q: the output is in the
    /// remaining set, nothing remaining is before it in row-major order, and afterwards the
    /// remaining set is the old one minus the output; None means nothing remained.
    //@harness prop=C16,C05 kind=lemma tier=quick class=I
    #[kani::proof]
    fn c16_points_step_is_row_major_successor() {
        let o: Points = kani::any();
        let n: Points = kani::any();
        let r: Option<Point> = if kani::any() { Some(kani::any()) } else { None };
        let q: Point = kani::any();
        kani::assume(inv(&o) && next_post(&o, &n, &r));
        kani::assume(o.y.end < i32::MAX && o.x.end < i32::MAX);
        match r {
            Some(p) => {
                assert!(remaining(&o, p));
                assert!(!(remaining(&o, q) && sp::before(q, p)));
                assert!(remaining(&n, q) == (remaining(&o, q) && q != p));
            }
            None => {
                assert!(!remaining(&o, q));
                assert!(!remaining(&n, q));
            }
        }
        kani::cover!(r.is_some());
        kani::cover!(r.is_none());
    }

    /// points() starts with remaining == contains (from the real constructor, real contains).
    //@harness prop=C16,C05 kind=lemma tier=quick class=P
    #[kani::proof]
    fn c16_points_new_remaining_is_contains() {
        let r: Rectangle = kani::any();
        let q: Point = kani::any();
        kani::assume(sp::rect_ok(&r));
        let s = Points::new(&r);
        assert!(inv(&s));
        assert!(remaining(&s, q) == r.contains(q));
        assert!(remaining(&s, q) == sp::contains(&r, q));
        kani::cover!(r.contains(q));
    }

    /// From-constructor (class P) bounded companion of the step contract: real new() and real
    /// next() calls, rectangles up to 3x3, every emitted point is the row-major successor.
    //@harness prop=C16,C05 kind=bounded tier=quick class=P bound="rectangle size <= 3x3, 10 next() calls"
    #[kani::proof]
    #[kani::unwind(11)]
    fn c16_points_from_constructor_bounded() {
        let r: Rectangle = kani::any();
        kani::assume(sp::rect_in(&r, 1 << 20) && r.size.width <= 3 && r.size.height <= 3);
        let mut s = Points::new(&r);
        let n = (r.size.width * r.size.height) as usize;
        let mut k: usize = 0;
        // expected point, advanced in row-major order (no division)
        let mut ex = r.top_left.x;
        let mut ey = r.top_left.y;
        while k < 10 {
            let p = s.next();
            if k < n {
                assert!(p == Some(Point::new(ex, ey)));
                ex += 1;
                if ex == r.top_left.x + r.size.width as i32 {
                    ex = r.top_left.x;
                    ey += 1;
                }
            } else {
                assert!(p.is_none());
            }
            k += 1;
        }
        kani::cover!(n == 9);
    }

    //@harness prop=C16 kind=canary tier=quick class=I expect=fail
    #[kani::proof]
    #[kani::unwind(4)]
    fn c16_points_canary() {
        let mut s: Points = kani::any();
        kani::assume(inv(&s));
        let r = s.next();
        assert!(r.is_none());
    }
}
//@end
