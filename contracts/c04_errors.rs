//! Unit `c04_errors`: target errors stop drawing immediately and are returned unchanged (property C04).
//! The fault target fails its k-th call (k symbolic) with error value k and flags any later call.
//@unit c04_errors
//@crate main
//@needs arb probe c06_styled c14_c15_text

//@append src/primitives/rectangle/styled.rs
#[cfg(kani)]
#[allow(missing_docs, trivial_casts, trivial_numeric_casts, unused_qualifications, dead_code, unused)]
mod verif_c04r {
    use super::*;
    use crate::{
        pixelcolor::Gray8,
        primitives::{primitive_style::verif_c06s::any_style, Primitive},
        verif_probe::{any_point, any_rect, everything, sp, ProbeNative, ProbeState, DOM},
        Drawable,
    };

    /// Styled rectangle (loop-free, every size / style / k): the run in which the k-th target call fails
    /// returns exactly Err(k), makes no further call, and its first k calls are the first k calls of
    /// the fault-free run (compared through a running hash of (method, area)).
    //@harness prop=C04 kind=lemma tier=quick class=P fns=src/primitives/rectangle/styled.rs::Rectangle::draw_styled
    #[kani::proof]
    fn c04_rectangle_fault_at_k() {
        let r = any_rect(DOM);
        let style = any_style(DOM as u32);
        let styled = r.into_styled(style);
        let q = any_point(4 * DOM);
        let bbox = any_rect(DOM);
        let k: u32 = kani::any();
        kani::assume(k >= 1 && k <= 6);
        let mut ok = ProbeNative::<Gray8>(ProbeState::new(q, bbox, everything()));
        ok.0.log_upto = k;
        let r_ok = styled.draw(&mut ok);
        assert!(r_ok.is_ok());
        let n = ok.0.calls;
        let mut f = ProbeNative::<Gray8>(ProbeState::new(q, bbox, everything()));
        f.0.fail_at = k;
        let r_f = styled.draw(&mut f);
        if k <= n {
            assert!(r_f == Err(k));
            assert!(f.0.calls == k && !f.0.called_after_fail);
            assert!(f.0.log == ok.0.log);
        } else {
            assert!(r_f.is_ok() && f.0.calls == n && f.0.log == ok.0.log && f.0.last == ok.0.last);
        }
        kani::cover!(k == 5 && n == 5);
        kani::cover!(k == 1 && n >= 2);
        kani::cover!(k > n);
    }

    //@harness prop=C04 kind=canary tier=quick class=P expect=fail
    #[kani::proof]
    fn c04_canary() {
        let r = any_rect(DOM);
        let style = any_style(DOM as u32);
        let mut f = ProbeNative::<Gray8>(ProbeState::new(any_point(DOM), any_rect(DOM), everything()));
        f.0.fail_at = 2;
        assert!(r.into_styled(style).draw(&mut f).is_ok());
    }
}
//@end

//@append src/primitives/common/styled_scanline.rs
#[cfg(kani)]
#[allow(missing_docs, trivial_casts, trivial_numeric_casts, unused_qualifications, dead_code, unused)]
mod verif_c04l {
    use super::*;
    use crate::{
        pixelcolor::Gray8,
        verif_probe::{any_point, any_rect, everything, ProbeNative, ProbeState},
    };
    use super::verif_c06l::any_styled_scanline;

    /// draw_stroke_and_fill / draw_stroke: every `?` propagates the k-th failure, nothing follows it
    //@harness prop=C04 kind=contract tier=quick class=I fns=src/primitives/common/styled_scanline.rs::StyledScanline::draw_stroke_and_fill;src/primitives/common/styled_scanline.rs::StyledScanline::draw_stroke;src/primitives/common/scanline.rs::Scanline::draw
    #[kani::proof]
    fn c04_styled_scanline_fault_at_k() {
        let s = any_styled_scanline();
        let k: u32 = kani::any();
        kani::assume(k >= 1 && k <= 4);
        let which: bool = kani::any();
        let (sc, fc) = (Gray8::new(1), Gray8::new(2));
        let q = any_point(16384);
        let mut ok = ProbeNative::<Gray8>(ProbeState::new(q, any_rect(4096), everything()));
        ok.0.log_upto = k;
        if which { s.draw_stroke_and_fill(&mut ok, sc, fc).unwrap() } else { s.draw_stroke(&mut ok, sc).unwrap() };
        let n = ok.0.calls;
        let mut f = ProbeNative::<Gray8>(ProbeState::new(q, any_rect(4096), everything()));
        f.0.fail_at = k;
        let r = if which { s.draw_stroke_and_fill(&mut f, sc, fc) } else { s.draw_stroke(&mut f, sc) };
        if k <= n {
            assert!(r == Err(k) && f.0.calls == k && !f.0.called_after_fail && f.0.log == ok.0.log);
        } else {
            assert!(r.is_ok() && f.0.calls == n);
        }
        kani::cover!(k == 3 && n == 3);
        kani::cover!(k == 1 && n == 2);
    }
}
//@end

//@append src/draw_target/mod.rs
#[cfg(kani)]
#[allow(missing_docs, trivial_casts, trivial_numeric_casts, unused_qualifications, dead_code, unused)]
mod verif_c04a {
    use super::*;
    use crate::{
        geometry::Point,
        pixelcolor::{Gray8, Rgb565, Rgb888},
        primitives::Rectangle,
        verif_probe::{any_point, any_rect, everything, CountIter, ProbeNative, ProbeState, DOM},
        Pixel,
    };

    /// Every adapter method returns the parent's Result unchanged (parent fails its first call) and the
    /// parent is called at most once per adapter call.
    //@harness prop=C04 kind=contract tier=quick class=P bound="one pixel per draw_iter, area <= 2x2 for fill_contiguous" fns=src/draw_target/clipped.rs::Clipped;src/draw_target/translated.rs::Translated;src/draw_target/cropped.rs::Cropped;src/draw_target/color_converted.rs::ColorConverted
    #[kani::proof]
    #[kani::unwind(6)]
    fn c04_adapters_return_parent_error() {
        let bbox = any_rect(DOM);
        let a = any_rect(DOM);
        let area = any_rect(DOM);
        let q = any_point(DOM);
        let fail: bool = kani::any();
        let op: u8 = kani::any();
        let which: u8 = kani::any();
        kani::assume(op < 4 && which < 4);
        let c = Gray8::new(kani::any());
        let px = Pixel(any_point(DOM), c);
        let mut parent = ProbeNative::<Gray8>(ProbeState::new(q, bbox, everything()));
        parent.0.fail_at = if fail { 1 } else { 0 };
        macro_rules! run {
            ($t:expr) => {{
                let mut t = $t;
                match op {
                    0 => t.fill_solid(&area, c),
                    1 => t.clear(c),
                    2 => t.draw_iter(core::iter::once(px)),
                    _ => {
                        kani::assume(area.size.width <= 2 && area.size.height <= 2);
                        t.fill_contiguous(&area, core::iter::repeat(c))
                    }
                }
            }};
        }
        let r = match which {
            0 => run!(parent.clipped(&a)),
            1 => run!(parent.translated(a.top_left)),
            2 => run!(parent.cropped(&a)),
            _ => {
                let mut l1 = parent.clipped(&a);
                run!(l1.translated(area.top_left))
            }
        };
        assert!(parent.0.calls <= 1);
        assert!(r == if fail && parent.0.calls == 1 { Err(1) } else { Ok(()) });
        kani::cover!(r.is_err() && op == 3);
        kani::cover!(r.is_err() && which == 3);
        kani::cover!(r.is_ok() && parent.0.calls == 1);
    }
    //@harness prop=C04 kind=contract tier=quick class=P bound="one pixel per draw_iter" fns=src/draw_target/color_converted.rs::ColorConverted
    #[kani::proof]
    #[kani::unwind(4)]
    fn c04_color_converted_returns_parent_error() {
        let mut parent = ProbeNative::<Rgb565>(ProbeState::new(any_point(DOM), any_rect(DOM), everything()));
        let fail: bool = kani::any();
        parent.0.fail_at = if fail { 1 } else { 0 };
        let c = Rgb888::new(kani::any(), kani::any(), kani::any());
        let op: u8 = kani::any();
        let r = {
            let mut t = parent.color_converted::<Rgb888>();
            match op {
                0 => t.fill_solid(&any_rect(DOM), c),
                1 => t.clear(c),
                _ => t.draw_iter(core::iter::once(Pixel(any_point(DOM), c))),
            }
        };
        assert!(parent.0.calls == 1 && r == if fail { Err(1) } else { Ok(()) });
        kani::cover!(r.is_err());
    }
}
//@end

//@append src/primitives/circle/styled.rs
#[cfg(kani)]
#[allow(missing_docs, trivial_casts, trivial_numeric_casts, unused_qualifications, dead_code, unused)]
mod verif_c04c {
    use super::*;
    use crate::{
        pixelcolor::Gray8,
        primitives::{primitive_style::verif_c06s::any_style, Primitive},
        verif_probe::{any_point, any_rect, everything, ProbeNative, ProbeState},
        Drawable,
    };

    /// Circle draw loop (bounded): `for scanline in .. { ..? }` stops at the failing call for every k
    //@harness prop=C04 kind=bounded tier=thorough class=P bound="stroke area diameter <= 3 (<= 3 rows, <= 9 target calls), all k <= 10" timeout=3000 fns=src/primitives/circle/styled.rs::Circle::draw_styled
    #[kani::proof]
    #[kani::unwind(6)]
    fn c04_circle_fault_at_k() {
        let d: u32 = kani::any();
        kani::assume(d <= 3);
        let c = Circle::new(any_point(64), d);
        let style = any_style(1);
        let styled = c.into_styled(style);
        kani::assume(styled.stroke_area().diameter <= 3);
        let k: u32 = kani::any();
        kani::assume(k >= 1 && k <= 10);
        let q = any_point(128);
        let mut ok = ProbeNative::<Gray8>(ProbeState::new(q, any_rect(64), everything()));
        ok.0.log_upto = k;
        styled.draw(&mut ok).unwrap();
        let n = ok.0.calls;
        let mut f = ProbeNative::<Gray8>(ProbeState::new(q, any_rect(64), everything()));
        f.0.fail_at = k;
        let r = styled.draw(&mut f);
        if k <= n {
            assert!(r == Err(k) && f.0.calls == k && !f.0.called_after_fail && f.0.log == ok.0.log);
        } else {
            assert!(r.is_ok() && f.0.calls == n);
        }
        kani::cover!(k <= n && k >= 4);
        kani::cover!(k > n && n >= 1);
    }
}
//@end

//@append src/image/mod.rs
#[cfg(kani)]
#[allow(missing_docs, trivial_casts, trivial_numeric_casts, unused_qualifications, dead_code, unused)]
mod verif_c04i {
    use super::*;
    use crate::{
        geometry::Size,
        pixelcolor::Gray8,
        verif_probe::{any_point, any_rect, everything, ProbeNative, ProbeState},
    };

    /// Image / SubImage draw: the single fill_contiguous call's error is returned
    //@harness prop=C04 kind=contract tier=quick class=P bound="image 3x2" fns=src/image/mod.rs::Image::draw;src/image/image_raw.rs::ImageRaw::draw;src/image/image_raw.rs::ImageRaw::draw_sub_image
    #[kani::proof]
    #[kani::unwind(8)]
    fn c04_image_returns_error() {
        let data: [u8; 6] = kani::any();
        let raw = ImageRaw::<Gray8>::new(&data, Size::new(3, 2)).unwrap();
        let mut f = ProbeNative::<Gray8>(ProbeState::new(any_point(64), any_rect(64), everything()));
        let fail: bool = kani::any();
        f.0.fail_at = if fail { 1 } else { 0 };
        let r = if kani::any() {
            Image::new(&raw, any_point(64)).draw(&mut f)
        } else {
            Image::new(&raw.sub_image(&Rectangle::new(Point::new(1, 0), Size::new(2, 2))), any_point(64)).draw(&mut f)
        };
        assert!(f.0.calls == 1 && r == if fail { Err(1) } else { Ok(()) });
        kani::cover!(r.is_err());
    }
}
//@end

//@append src/text/text.rs
#[cfg(kani)]
#[allow(missing_docs, trivial_casts, trivial_numeric_casts, unused_qualifications, dead_code, unused)]
mod verif_c04t {
    use super::*;
    use crate::{
        mono_font::{verif_c14f::{any_parts, metrics_only_font}, MonoTextStyle},
        pixelcolor::Gray8,
        text::{DecorationColor, LineHeight},
        verif_probe::{any_point, any_rect, everything, ProbeNative, ProbeState},
    };

    /// Text (bounded): per-character spacing fills, decorations and the per-line loop all propagate the
    /// k-th target error with `?`: Err(k) is returned, nothing is called afterwards, the calls before it
    /// are those of the fault-free run. (A font with an empty atlas: glyph images make no target call.)
    //@harness prop=C04 kind=bounded tier=quick class=P bound="text 'ab\\nc' (two lines), symbolic metrics, background + underline + strikethrough; all k <= 8" timeout=900 fns=src/text/text.rs::Text::draw;src/mono_font/mono_text_style.rs::MonoTextStyle::draw_string;src/mono_font/mono_text_style.rs::MonoTextStyle::draw_string_binary;src/mono_font/mono_text_style.rs::MonoTextStyle::draw_decorations
    #[kani::proof]
    #[kani::unwind(10)]
    fn c04_text_fault_at_k() {
        let p = any_parts(16);
        kani::assume(p.cw >= 1 && p.ch >= 1 && p.spacing >= 1);
        let mapping = |_c: char| 0usize;
        let f = metrics_only_font(&p, &mapping);
        let mut style = MonoTextStyle::new(&f, Gray8::new(200));
        style.background_color = if kani::any() { Some(Gray8::new(50)) } else { None };
        style.underline_color = DecorationColor::Custom(Gray8::new(100));
        style.strikethrough_color = if kani::any() { DecorationColor::TextColor } else { DecorationColor::None };
        let pos = any_point(256);
        let ts = TextStyleBuilder::new().line_height(LineHeight::Pixels(20)).build();
        let text = Text::with_text_style("ab\nc", pos, style, ts);
        let k: u32 = kani::any();
        kani::assume(k >= 1 && k <= 8);
        let q = any_point(1024);
        let mut ok = ProbeNative::<Gray8>(ProbeState::new(q, any_rect(64), everything()));
        ok.0.log_upto = k;
        assert!(text.draw(&mut ok).is_ok());
        let n = ok.0.calls;
        let mut fl = ProbeNative::<Gray8>(ProbeState::new(q, any_rect(64), everything()));
        fl.0.fail_at = k;
        let r = text.draw(&mut fl);
        if k <= n {
            assert!(r == Err(k) && fl.0.calls == k && !fl.0.called_after_fail && fl.0.log == ok.0.log);
        } else {
            assert!(r.is_ok() && fl.0.calls == n);
        }
        kani::cover!(k <= n && k >= 4);
        kani::cover!(n >= 5);
    }
}
//@end
