//! Unit `c18_curved`: curved primitives match their mathematical shapes and each other (property C18),
//! at the level of contains() (loop-free, symbolic); the transfer to points() is property C05.
//@unit c18_curved
//@crate main
//@needs arb probe ellipse_contract

//@append src/primitives/mod.rs
#[cfg(kani)]
#[allow(missing_docs, trivial_casts, trivial_numeric_casts, unused_qualifications, dead_code, unused)]
mod verif_c18 {
    use super::*;
    use crate::{
        geometry::{Angle, Dimensions, Size},
        verif_probe::{any_point, any_rect, sp},
    };

    fn any_circle(max_d: u32) -> Circle {
        let d: u32 = kani::any();
        kani::assume(d <= max_d);
        Circle::new(any_point(1024), d)
    }
    /// doubled offset of pixel centre q from the centre of the bounding box of (tl, w x h)
    fn delta2(tl: Point, w: u32, h: u32, q: Point) -> (i64, i64) {
        (2 * q.x as i64 + 1 - 2 * tl.x as i64 - w as i64, 2 * q.y as i64 + 1 - 2 * tl.y as i64 - h as i64)
    }

    /// Circle vs the ideal circle of radius d/2 about the centre of the bounding box, up to a band of
    /// half a pixel: pixel centres closer than r - 1/2 are included, those further than r + 1/2 are not
    /// (doubled integer coordinates: |D| <= d - 1  =>  in;  |D| >= d + 1  =>  out). All d <= 2048.
    //@harness prop=C18,C08 kind=lemma tier=quick class=P fns=src/primitives/circle/mod.rs::Circle::contains;src/primitives/circle/mod.rs::diameter_to_threshold;src/primitives/circle/mod.rs::Circle::center_2x
    #[kani::proof]
    fn c18_circle_vs_ideal_band() {
        let c = any_circle(2048);
        let q = any_point(8192);
        let (dx, dy) = delta2(c.top_left, c.diameter, c.diameter, q);
        let d = c.diameter as i64;
        let dist2 = dx * dx + dy * dy;
        if d >= 1 && dist2 <= (d - 1) * (d - 1) {
            assert!(c.contains(q));
        }
        if dist2 >= (d + 1) * (d + 1) {
            assert!(!c.contains(q));
        }
        kani::cover!(c.contains(q) && d > 100);
        kani::cover!(!c.contains(q) && sp::contains(&c.bounding_box(), q));
    }

    /// mirror symmetry about both centre lines
    //@harness prop=C18 kind=lemma tier=quick class=P bound="diameter <= 512" fns=src/primitives/circle/mod.rs::Circle::contains
    #[kani::proof]
    fn c18_circle_mirror_symmetry() {
        let c = any_circle(512);
        kani::assume(c.diameter >= 1);
        let q = any_point(2048);
        let d = c.diameter as i32;
        let mx = Point::new(2 * c.top_left.x + d - 1 - q.x, q.y);
        let my = Point::new(q.x, 2 * c.top_left.y + d - 1 - q.y);
        assert!(c.contains(mx) == c.contains(q) && c.contains(my) == c.contains(q));
        kani::cover!(c.contains(q) && d > 100);
    }
    /// every row and column is one contiguous run (three collinear points a <= q <= b)
    //@harness prop=C18 kind=lemma tier=quick class=P bound="diameter <= 512" timeout=900 fns=src/primitives/circle/mod.rs::Circle::contains
    #[kani::proof]
    fn c18_circle_row_column_convexity() {
        let c = any_circle(512);
        let q = any_point(2048);
        let (a, b): (i32, i32) = (kani::any(), kani::any());
        kani::assume(-2048 <= a && a <= b && b <= 2048);
        if kani::any() {
            kani::assume(a <= q.x && q.x <= b);
            if c.contains(Point::new(a, q.y)) && c.contains(Point::new(b, q.y)) {
                assert!(c.contains(q));
            }
        } else {
            kani::assume(a <= q.y && q.y <= b);
            if c.contains(Point::new(q.x, a)) && c.contains(Point::new(q.x, b)) {
                assert!(c.contains(q));
            }
        }
        kani::cover!(c.contains(q) && a < q.x && q.x < b);
    }
    /// the circle touches all four sides of its bounding box
    //@harness prop=C18 kind=lemma tier=quick class=P bound="diameter <= 2048" fns=src/primitives/circle/mod.rs::Circle::contains;src/primitives/circle/mod.rs::Circle::center
    #[kani::proof]
    fn c18_circle_touches_four_sides() {
        let c = any_circle(2048);
        kani::assume(c.diameter >= 1);
        let d = c.diameter as i32;
        let ctr = c.center();
        assert!(c.contains(Point::new(ctr.x, c.top_left.y)) && c.contains(Point::new(ctr.x, c.top_left.y + d - 1)));
        assert!(c.contains(Point::new(c.top_left.x, ctr.y)) && c.contains(Point::new(c.top_left.x + d - 1, ctr.y)));
        kani::cover!(d > 1000);
    }

    /// a circle equals the ellipse with equal axes
    //@harness prop=C18,C08 kind=lemma tier=quick class=P fns=src/primitives/ellipse/mod.rs::Ellipse::contains;src/primitives/ellipse/mod.rs::EllipseContains::new
    #[kani::proof]
    fn c18_circle_equals_equal_axes_ellipse() {
        let c = any_circle(1024);
        let q = any_point(4096);
        let e = Ellipse::new(c.top_left, Size::new_equal(c.diameter));
        assert!(e.contains(q) == c.contains(q));
        assert!(e.bounding_box() == c.bounding_box() && e.center() == c.center());
        kani::cover!(c.contains(q));
    }

    /// Ellipse (unequal axes): a pixel is included iff its centre is strictly inside the ideal ellipse
    /// (x/a)^2 + (y/b)^2 < 1 about the centre of the bounding box -- exactly, no band needed; mirror
    /// symmetry and row convexity. Axes <= 256 (64-bit products of the implementation vs i128 spec).
    //@harness prop=C18 kind=lemma tier=quick class=P bound="ellipse axes <= 64 (EllipseContains contract domain), probe within +-100 of the shape" timeout=900 fns=src/primitives/ellipse/mod.rs::Ellipse::contains;src/primitives/ellipse/mod.rs::EllipseContains::contains
    #[kani::proof]
    #[kani::stub(crate::primitives::ellipse::EllipseContains::contains, crate::primitives::ellipse::verif_ell::contains_by_contract)]
    fn c18_ellipse_vs_ideal() {
        let s: Size = kani::any();
        kani::assume(s.width <= 64 && s.height <= 64 && s.width != s.height);
        let e = Ellipse::new(any_point(1024), s);
        let q = any_point(2048);
        kani::assume((q.x as i64 - e.top_left.x as i64).abs() <= 100 && (q.y as i64 - e.top_left.y as i64).abs() <= 100);
        let (dx, dy) = delta2(e.top_left, s.width, s.height, q);
        let (a2, b2) = ((s.width as i64) * (s.width as i64), (s.height as i64) * (s.height as i64));
        let inside = b2 * dx * dx + a2 * dy * dy < a2 * b2;
        assert!(e.contains(q) == inside);
        kani::cover!(inside && s.width > 50);
    }
    //@harness prop=C18 kind=lemma tier=quick class=P bound="ellipse axes <= 64 (EllipseContains contract domain)" fns=src/primitives/ellipse/mod.rs::Ellipse::contains
    #[kani::proof]
    #[kani::stub(crate::primitives::ellipse::EllipseContains::contains, crate::primitives::ellipse::verif_ell::contains_by_contract)]
    fn c18_ellipse_symmetry_convexity() {
        let s: Size = kani::any();
        kani::assume(s.width >= 1 && s.height >= 1 && s.width <= 64 && s.height <= 64);
        let e = Ellipse::new(any_point(1024), s);
        let q = any_point(2048);
        kani::assume((q.x as i64 - e.top_left.x as i64).abs() <= 100 && (q.y as i64 - e.top_left.y as i64).abs() <= 100);
        let mx = Point::new(2 * e.top_left.x + s.width as i32 - 1 - q.x, q.y);
        assert!(e.contains(mx) == e.contains(q));
        let (a, b): (i32, i32) = (kani::any(), kani::any());
        kani::assume(e.top_left.x - 100 <= a && a <= q.x && q.x <= b && b <= e.top_left.x + 100);
        if e.contains(Point::new(a, q.y)) && e.contains(Point::new(b, q.y)) {
            assert!(e.contains(q));
        }
        kani::cover!(e.contains(q));
    }

    /// rounded rectangle: zero radii == the rectangle; radii of half the (even) sides == the ellipse
    //@harness prop=C18 kind=lemma tier=quick class=P bound="sizes <= 64 for the ellipse comparison" timeout=900 fns=src/primitives/rounded_rectangle/mod.rs::RoundedRectangle::contains;src/primitives/rounded_rectangle/ellipse_quadrant.rs::EllipseQuadrant
    #[kani::proof]
    fn c18_rounded_rectangle_equivalences() {
        let q = any_point(4096);
        let r = any_rect(1024);
        let rr0 = RoundedRectangle::with_equal_corners(r, Size::zero());
        assert!(rr0.contains(q) == r.contains(q));
        let (hw, hh): (u32, u32) = (kani::any(), kani::any());
        kani::assume(hw >= 1 && hh >= 1 && hw <= 32 && hh <= 32);
        let tl = any_point(1024);
        let size = Size::new(2 * hw, 2 * hh);
        let rr = RoundedRectangle::with_equal_corners(Rectangle::new(tl, size), Size::new(hw, hh));
        let e = Ellipse::new(tl, size);
        kani::assume((q.x as i64 - tl.x as i64).abs() <= 128 && (q.y as i64 - tl.y as i64).abs() <= 128);
        assert!(rr.contains(q) == e.contains(q));
        kani::cover!(e.contains(q));
    }

    /// Rounded rectangle with four INDEPENDENT (fitting) corner radii: mirroring the shape (swapping
    /// the left and right corner radii) mirrors contains(); each corner is governed by its own radius.
    /// Decides left/right mix-ups between the corners. Sizes and radii are built from 3-bit values so
    /// that the 64-bit products of the corner ellipses stay small for the SAT solver.
    //@harness prop=C18 kind=lemma tier=quick class=P bound="rectangle <= 7x7, radii <= 7 that fit, probe within +-12 of the shape" timeout=900 kani="--no-assertion-reach-checks" fns=src/primitives/rounded_rectangle/mod.rs::RoundedRectangleContains::contains;src/primitives/rounded_rectangle/mod.rs::RoundedRectangleContains::new
    #[kani::proof]
    #[kani::stub(crate::primitives::rounded_rectangle::CornerRadii::confine, crate::primitives::rounded_rectangle::corner_radii::verif_cr::confine_by_contract)]
    #[kani::stub(crate::primitives::ellipse::EllipseContains::contains, crate::primitives::ellipse::verif_ell::contains_by_contract)]
    fn c18_rounded_rectangle_mirror_symmetry() {
        let nib = || (kani::any::<u8>() & 7) as u32;
        let s = Size::new(nib(), nib());
        kani::assume(s.width >= 1 && s.height >= 1);
        let r = Rectangle::new(any_point(256), s);
        let c = CornerRadii { top_left: Size::new(nib(), nib()), top_right: Size::new(nib(), nib()), bottom_right: Size::new(nib(), nib()), bottom_left: Size::new(nib(), nib()) };
        kani::assume(crate::primitives::rounded_rectangle::verif_fits(&c, s));
        let q = any_point(512);
        kani::assume((q.x as i64 - r.top_left.x as i64).abs() <= 12 && (q.y as i64 - r.top_left.y as i64).abs() <= 12);
        let rr = RoundedRectangle::new(r, c);
        let m = RoundedRectangle::new(r, CornerRadii { top_left: c.top_right, top_right: c.top_left, bottom_left: c.bottom_right, bottom_right: c.bottom_left });
        let mq = Point::new(2 * r.top_left.x + s.width as i32 - 1 - q.x, q.y);
        assert!(rr.contains(q) == m.contains(mq));
        kani::cover!(rr.contains(q) && c.top_left.height != c.top_right.height);
        kani::cover!(!rr.contains(q) && r.contains(q));
    }

    /// confine_radii(): radii that already fit are unchanged (idempotence on fitting radii)
    //@harness prop=C18 kind=lemma tier=quick class=P fns=src/primitives/rounded_rectangle/mod.rs::RoundedRectangle::confine_radii
    #[kani::proof]
    #[kani::stub(crate::primitives::rounded_rectangle::CornerRadii::confine, crate::primitives::rounded_rectangle::corner_radii::verif_cr::confine_by_contract)]
    fn c18_confine_keeps_fitting_radii() {
        let r = any_rect(1024);
        let c: CornerRadii = kani::any();
        kani::assume(crate::primitives::rounded_rectangle::verif_fits(&c, r.size));
        let rr = RoundedRectangle::new(r, c);
        assert!(rr.confine_radii() == rr);
        kani::cover!(true);
    }
    /// ... after confine_radii() adjacent radii never add up to more than the side they share:
    /// known finding C18-F1 (radii are scaled by the side with the largest ABSOLUTE overlap)
    //@harness prop=C18 kind=witness tier=quick class=P expect=fail finding=C18-F1 fns=src/primitives/rounded_rectangle/corner_radii.rs::CornerRadii::confine
    #[kani::proof]
    fn c18_witness_confine_fits() {
        // the listed input: 10 x 100 rectangle, all radii (8, 60)
        let rr = RoundedRectangle::with_equal_corners(Rectangle::new(Point::zero(), Size::new(10, 100)), Size::new(8, 60)).confine_radii();
        let c = rr.corners;
        assert!(c.top_left.width + c.top_right.width <= 10 && c.top_left.height + c.bottom_left.height <= 100);
    }

    /// a sector sweeping 360 degrees or more equals the circle (either sign; floating point build)
    //@harness prop=C18,C08 kind=lemma tier=quick class=P fns=src/primitives/sector/mod.rs::Sector::contains;src/primitives/common/plane_sector.rs::PlaneSector::new
    #[kani::proof]
    fn c18_full_sweep_sector_equals_circle() {
        let c = any_circle(512);
        let q = any_point(2048);
        let start: f32 = kani::any();
        let sweep: f32 = kani::any();
        kani::assume(start.is_finite() && sweep.is_finite() && start.abs() <= 100000.0);
        kani::assume(sweep >= 360.5 || sweep <= -360.5);
        kani::assume(sweep.abs() <= 100000.0);
        let s = Sector::from_circle(c, Angle::from_degrees(start), Angle::from_degrees(sweep));
        assert!(s.contains(q) == c.contains(q));
        assert!(s.bounding_box() == c.bounding_box());
        kani::cover!(c.contains(q) && sweep < 0.0);
    }

    //@harness prop=C18 kind=canary tier=quick class=P expect=fail
    #[kani::proof]
    fn c18_canary() {
        let c = any_circle(2048);
        let q = any_point(4096);
        assert!(c.contains(q) == sp::contains(&c.bounding_box(), q));
    }
}
//@end
//@append src/primitives/rounded_rectangle/mod.rs
#[cfg(kani)]
pub(in crate::primitives) use corner_radii::verif_cr::fits as verif_fits;
//@end

// ------------------------------------------------------------------ PlaneSector vs half-plane algebra
//@append src/primitives/common/plane_sector.rs
#[cfg(kani)]
#[allow(missing_docs, trivial_casts, trivial_numeric_casts, unused_qualifications, dead_code, unused)]
mod verif_c18p {
    use super::*;
    use crate::verif_probe::any_point;

    /// PlaneSector::contains for ARBITRARY normals (|n| <= 1024) and every operation is the stated
    /// intersection / union of the two closed half planes n_left . p <= 0 and n_right . p >= 0
    //@harness prop=C18 kind=contract tier=quick class=I fns=src/primitives/common/plane_sector.rs::PlaneSector::contains;src/primitives/common/linear_equation.rs::OriginLinearEquation::check_side
    #[kani::proof]
    fn c18_plane_sector_is_half_plane_algebra() {
        let (nl, nr) = (any_point(1024), any_point(1024));
        let op = match kani::any::<u8>() % 3 { 0 => Operation::Intersection, 1 => Operation::Union, _ => Operation::EntirePlane };
        let ps = PlaneSector { half_plane_left: OriginLinearEquation { normal_vector: nl }, half_plane_right: OriginLinearEquation { normal_vector: nr }, operation: op };
        let p = any_point(4096);
        let dl = p.x as i64 * nl.x as i64 + p.y as i64 * nl.y as i64;
        let dr = p.x as i64 * nr.x as i64 + p.y as i64 * nr.y as i64;
        let expected = match op {
            Operation::Intersection => dl <= 0 && dr >= 0,
            Operation::Union => dl <= 0 || dr >= 0,
            Operation::EntirePlane => true,
        };
        assert!(ps.contains(p) == expected);
        kani::cover!(expected && op == Operation::Intersection);
    }
}
//@end
