//! Unit `c05_points`: points() enumerates exactly the points contains() accepts (property C05).
//! Rectangle is covered by unit c16_rect (constructor + step contract of rectangle::Points).
//@unit c05_points
//@crate main
//@needs arb probe ellipse_contract

// ------------------------------------------------------------------ Circle
//@append src/primitives/circle/points.rs
#[cfg(kani)]
#[allow(missing_docs, trivial_casts, trivial_numeric_casts, unused_qualifications, dead_code, unused)]
mod verif_c05c {
    use super::*;
    use crate::{primitives::ContainsPoint, verif_probe::{any_point, sp}};

    pub const W: u32 = 8;
    pub const WT: u32 = 20;

    fn any_circle(max_d: u32) -> Circle {
        let d: u32 = kani::any();
        kani::assume(d <= max_d);
        Circle::new(any_point(1024), d)
    }

    /// Row contract of the real Scanlines::next from an arbitrary row of an arbitrary circle:
    /// the returned scanline is row y, lies inside the bounding box columns and contains (qx, y)
    /// exactly when contains() accepts it; exactly one row is consumed, nothing else changes.
    fn row(max_d: u32) {
        let c = any_circle(max_d);
        let mut s = Scanlines::new(&c);
        let bb = c.bounding_box();
        assert!(s.rows.start as i64 == sp::top(&bb) && s.rows.end as i64 == sp::bottom(&bb));
        let y: i32 = kani::any();
        kani::assume(s.rows.start <= y && y < s.rows.end);
        s.rows.start = y;
        let o = s.clone();
        let r = s.next();
        let qx: i32 = kani::any();
        kani::assume((qx as i64 - c.top_left.x as i64).abs() <= 3 * max_d as i64 + 3);
        let q = Point::new(qx, y);
        match r {
            Some(sl) => {
                assert!(sl.y == y);
                assert!(sl.x.start >= o.columns.start && sl.x.end <= o.columns.end);
                assert!(sl.x.contains(&qx) == c.contains(q));
            }
            None => assert!(!c.contains(q)),
        }
        assert!(s.rows.start == y + 1 && s.rows.end == o.rows.end && s.columns == o.columns && s.center_2x == o.center_2x && s.threshold == o.threshold);
        kani::cover!(c.contains(q) && c.diameter == max_d);
        kani::cover!(!c.contains(q) && sp::contains(&bb, q));
    }
    //@harness prop=C05 kind=bounded tier=quick class=P bound="circle diameter <= 8 (row search loop), position +-1024, every row" fns=src/primitives/circle/points.rs::Scanlines::new;src/primitives/circle/points.rs::Scanlines::next
    #[kani::proof]
    #[kani::unwind(11)]
    fn c05_circle_row() {
        row(W);
    }
    //@harness prop=C05 kind=bounded tier=thorough class=P bound="circle diameter <= 20 (row search loop), position +-1024, every row"
    #[kani::proof]
    #[kani::unwind(23)]
    fn c05_circle_row_thorough() {
        row(WT);
    }

    /// Flattening contract of Points::next from an arbitrary iterator state: the next point of the
    /// current scanline, else the first point of the next row's scanline; rows are taken in order.
    //@harness prop=C05 kind=bounded tier=quick class=I bound="circle diameter <= 8" fns=src/primitives/circle/points.rs::Points::next;src/primitives/circle/points.rs::Points::new
    #[kani::proof]
    #[kani::unwind(11)]
    fn c05_circle_points_step() {
        let c = any_circle(W);
        let mut p = Points::new(&c);
        assert!(p.current_scanline.is_empty());
        let y: i32 = kani::any();
        kani::assume(p.scanlines.rows.start <= y && y <= p.scanlines.rows.end);
        p.scanlines.rows.start = y;
        let (a, b): (i32, i32) = (kani::any(), kani::any());
        kani::assume(-4096 <= a && a <= b && b <= 4096);
        p.current_scanline = Scanline::new(kani::any(), a..b);
        let o = p.clone();
        let r = p.next();
        if a < b {
            assert!(r == Some(Point::new(a, o.current_scanline.y)));
            assert!(p.current_scanline == Scanline::new(o.current_scanline.y, a + 1..b) && p.scanlines == o.scanlines);
        } else {
            let mut s2 = o.scanlines.clone();
            match s2.next() {
                None => assert!(r.is_none()),
                Some(sl) => {
                    assert!(p.scanlines == s2);
                    if sl.x.start < sl.x.end {
                        assert!(r == Some(Point::new(sl.x.start, sl.y)));
                        assert!(p.current_scanline == Scanline::new(sl.y, sl.x.start + 1..sl.x.end));
                    } else {
                        assert!(r.is_none());
                    }
                }
            }
        }
        kani::cover!(a < b);
        kani::cover!(a == b && r.is_some());
        kani::cover!(a == b && r.is_none());
    }

    /// No row inside the bounding box is empty (so points() never stops early), and contains() is
    /// false outside the bounding box: loop-free, all diameters up to 4096.
    //@harness prop=C05 kind=lemma tier=quick class=P fns=src/primitives/circle/mod.rs::Circle::contains;src/primitives/circle/mod.rs::Circle::center_2x;src/primitives/circle/mod.rs::diameter_to_threshold
    #[kani::proof]
    fn c05_circle_rows_nonempty_and_outside_false() {
        let c = any_circle(4096);
        let bb = c.bounding_box();
        let q = any_point(8192);
        if !sp::contains(&bb, q) {
            assert!(!c.contains(q));
        }
        let y: i32 = kani::any();
        kani::assume(sp::top(&bb) <= y as i64 && (y as i64) < sp::bottom(&bb));
        assert!(c.contains(Point::new(c.center().x, y)));
        kani::cover!(c.diameter == 4096);
    }

    //@harness prop=C05 kind=canary tier=quick class=P expect=fail
    #[kani::proof]
    #[kani::unwind(11)]
    fn c05_circle_canary() {
        let c = any_circle(W);
        let mut s = Scanlines::new(&c);
        let r = s.next();
        assert!(r.map_or(true, |sl| sl.x.end - sl.x.start == c.diameter as i32));
    }
}
//@end

// ------------------------------------------------------------------ Ellipse
//@append src/primitives/ellipse/points.rs
#[cfg(kani)]
#[allow(missing_docs, trivial_casts, trivial_numeric_casts, unused_qualifications, dead_code, unused)]
mod verif_c05e {
    use super::*;
    use crate::{geometry::Size, primitives::{ContainsPoint, PointsIter}, verif_probe::{any_point, sp}};

    fn any_ellipse(max_w: u32, max_h: u32) -> Ellipse {
        let s: Size = kani::any();
        kani::assume(s.width <= max_w && s.height <= max_h);
        Ellipse::new(any_point(1024), s)
    }

    /// Row contract of the real Scanlines::next from an arbitrary row: it returns the first row at or
    /// after y that contains a point (rows without any contained point are skipped), as the interval
    /// of exactly the contained columns, or None when no such row is left.
    /// Bounded: at most one empty row is skipped per call (outer loop <= 2 iterations).
    //@harness prop=C05 kind=bounded tier=quick class=P bound="ellipse width <= 5 (row search loop), height <= 64, at most one empty row skipped per call, position +-1024" unwindset="ellipse::points::Scanlines as core::iter::Iterator>::next=3;try_fold=7" fns=src/primitives/ellipse/points.rs::Scanlines::new;src/primitives/ellipse/points.rs::Scanlines::next
    #[kani::proof]
    #[kani::unwind(8)]
    #[kani::stub(crate::primitives::ellipse::EllipseContains::contains, crate::primitives::ellipse::verif_ell::contains_by_contract)]
    fn c05_ellipse_row() {
        let c = any_ellipse(5, 64);
        let mut s = Scanlines::new(&c);
        let y: i32 = kani::any();
        kani::assume(s.rows.start <= y && y < s.rows.end);
        s.rows.start = y;
        // at most one empty row in front of the next non-empty one, or the end of the shape
        let cx = c.center().x;
        kani::assume(c.contains(Point::new(cx, y)) || y + 1 >= s.rows.end || c.contains(Point::new(cx, y + 1)) || y + 2 >= s.rows.end);
        let o = s.clone();
        let r = s.next();
        let qx: i32 = kani::any();
        kani::assume((qx as i64 - c.top_left.x as i64).abs() <= 24);
        let q = Point::new(qx, y);
        match r {
            Some(ref sl) => {
                assert!(sl.y >= y && sl.y < o.rows.end);
                assert!(sl.x.start >= o.columns.start && sl.x.end <= o.columns.end && sl.x.start < sl.x.end);
                if sl.y == y {
                    assert!(sl.x.contains(&qx) == c.contains(q));
                } else {
                    assert!(!c.contains(q));
                    assert!(sl.x.contains(&qx) == c.contains(Point::new(qx, sl.y)));
                }
                assert!(s.rows.start == sl.y + 1);
            }
            None => {
                assert!(!c.contains(q));
                assert!(s.rows.start == o.rows.end);
            }
        }
        assert!(s.rows.end == o.rows.end && s.columns == o.columns && s.center_2x == o.center_2x && s.ellipse_contains == o.ellipse_contains);
        kani::cover!(c.contains(q));
        kani::cover!(r.is_none());
        kani::cover!(r.is_some() && s.rows.start > y + 1);
    }

    /// Flattening contract of Points::next: while the current scanline is non-empty its next point is
    /// returned and nothing else changes (loop-free, all states).
    //@harness prop=C05 kind=step tier=quick class=I fns=src/primitives/ellipse/points.rs::Points::next;src/primitives/ellipse/points.rs::Points::new
    #[kani::proof]
    #[kani::unwind(2)]
    fn c05_ellipse_points_step_in_row() {
        let c = any_ellipse(64, 64);
        let mut p = Points::new(&c);
        assert!(p.current_scanline.is_empty());
        let y: i32 = kani::any();
        kani::assume(p.scanlines.rows.start <= y && y <= p.scanlines.rows.end);
        p.scanlines.rows.start = y;
        let (a, b): (i32, i32) = (kani::any(), kani::any());
        kani::assume(-4096 <= a && a < b && b <= 4096);
        p.current_scanline = Scanline::new(kani::any(), a..b);
        let o = p.clone();
        let r = p.next();
        assert!(r == Some(Point::new(a, o.current_scanline.y)));
        assert!(p.current_scanline == Scanline::new(o.current_scanline.y, a + 1..b) && p.scanlines == o.scanlines);
        kani::cover!(true);
    }
    /// ... and when it is empty the first point of the scanline returned by Scanlines::next follows.
    //@harness prop=C05 kind=bounded tier=thorough class=I bound="ellipse width <= 4, height <= 8" unwindset="ellipse::points::Scanlines as core::iter::Iterator>::next=10;try_fold=6" timeout=3000 fns=src/primitives/ellipse/points.rs::Points::next
    #[kani::proof]
    #[kani::unwind(10)]
    #[kani::stub(crate::primitives::ellipse::EllipseContains::contains, crate::primitives::ellipse::verif_ell::contains_by_contract)]
    fn c05_ellipse_points_step_next_row() {
        let c = any_ellipse(4, 8);
        let mut p = Points::new(&c);
        let y: i32 = kani::any();
        kani::assume(p.scanlines.rows.start <= y && y <= p.scanlines.rows.end);
        p.scanlines.rows.start = y;
        let o = p.clone();
        let r = p.next();
        let mut s2 = o.scanlines.clone();
        match s2.next() {
            None => assert!(r.is_none()),
            Some(sl) => {
                assert!(p.scanlines == s2);
                assert!(r == Some(Point::new(sl.x.start, sl.y)));
                assert!(p.current_scanline == Scanline::new(sl.y, sl.x.start + 1..sl.x.end));
            }
        }
        kani::cover!(r.is_some());
        kani::cover!(r.is_none());
    }

    /// contains() is false outside the bounding box (loop-free, display-scale sizes whose products fit u32)
    //@harness prop=C05 kind=lemma tier=quick class=P fns=src/primitives/ellipse/mod.rs::Ellipse::contains;src/primitives/ellipse/mod.rs::EllipseContains::new;src/primitives/ellipse/mod.rs::EllipseContains::contains
    #[kani::proof]
    fn c05_ellipse_outside_false() {
        let c = any_ellipse(200, 200);
        let q = any_point(2048);
        kani::assume((q.x as i64 - c.top_left.x as i64).abs() <= 220 && (q.y as i64 - c.top_left.y as i64).abs() <= 220);
        if !sp::contains(&c.bounding_box(), q) {
            assert!(!c.contains(q));
        }
        kani::cover!(c.contains(q) && c.size.width == 200 && c.size.height == 150);
    }

    /// From the constructor (class P): a thin ellipse has empty rows at the top; points() must still
    /// yield the contained point of a later row.
    //@harness prop=C05 kind=bounded tier=quick class=P bound="ellipse 2 x h, h <= 10, first point only" unwindset="ellipse::points::Scanlines as core::iter::Iterator>::next=12;try_fold=4"
    #[kani::proof]
    #[kani::unwind(13)]
    #[kani::stub(crate::primitives::ellipse::EllipseContains::contains, crate::primitives::ellipse::verif_ell::contains_by_contract)]
    fn c05_ellipse_thin_first_point() {
        let h: u32 = kani::any();
        kani::assume(h >= 1 && h <= 10);
        let c = Ellipse::new(any_point(1024), Size::new(2, h));
        let first = c.points().next();
        // the centre row always contains the two columns of a 2-wide ellipse
        let mid = Point::new(c.top_left.x, c.top_left.y + (h as i32 - 1) / 2);
        assert!(c.contains(mid));
        assert!(first.is_some());
        assert!(c.contains(first.unwrap()));
        kani::cover!(h == 8);
    }
}
//@end

// ------------------------------------------------------------------ RoundedRectangle
//@append src/primitives/rounded_rectangle/points.rs
#[cfg(kani)]
#[allow(missing_docs, trivial_casts, trivial_numeric_casts, unused_qualifications, dead_code, unused)]
mod verif_c05r {
    use super::*;
    use crate::{
        geometry::{Dimensions, Size},
        primitives::{CornerRadii, Rectangle},
        verif_probe::{any_point, sp},
    };

    /// corner radii that fit: adjacent radii do not add up to more than the side they share
    fn fits(rr: &RoundedRectangle) -> bool {
        let c = rr.corners;
        let s = rr.rectangle.size;
        c.top_left.width + c.top_right.width <= s.width
            && c.bottom_left.width + c.bottom_right.width <= s.width
            && c.top_left.height + c.bottom_left.height <= s.height
            && c.top_right.height + c.bottom_right.height <= s.height
    }
    fn any_rr(max_w: u32, max_h: u32, equal: bool) -> RoundedRectangle {
        let s: Size = kani::any();
        kani::assume(s.width <= max_w && s.height <= max_h);
        let rect = Rectangle::new(any_point(1024), s);
        let r = |m: u32| {
            let x: Size = kani::any();
            kani::assume(x.width <= m && x.height <= m);
            x
        };
        let corners = if equal {
            CornerRadii::new(r(2 * max_w))
        } else {
            CornerRadii { top_left: r(2 * max_w), top_right: r(2 * max_w), bottom_right: r(2 * max_w), bottom_left: r(2 * max_w) }
        };
        RoundedRectangle::new(rect, corners)
    }

    fn row(rr: RoundedRectangle, reach: i64) {
        row2(rr, reach, true)
    }
    fn row2(rr: RoundedRectangle, reach: i64, expect_cut_corner: bool) {
        let mut s = Scanlines::new(&rr);
        let y: i32 = kani::any();
        kani::assume(s.rounded_rectangle.rows.start <= y && y < s.rounded_rectangle.rows.end);
        s.rounded_rectangle.rows.start = y;
        let o = s.clone();
        let r = s.next();
        let qx: i32 = kani::any();
        kani::assume((qx as i64 - rr.rectangle.top_left.x as i64).abs() <= reach);
        let q = Point::new(qx, y);
        match r {
            Some(sl) => {
                assert!(sl.y == y);
                assert!(sl.x.contains(&qx) == rr.contains(q));
            }
            None => assert!(!rr.contains(q)),
        }
        assert!(s.rounded_rectangle.rows.start == y + 1);
        kani::cover!(rr.contains(q));
        if expect_cut_corner {
            kani::cover!(!rr.contains(q) && sp::contains(&rr.bounding_box(), q));
        }
    }
    //@harness prop=C05 kind=bounded tier=thorough class=P bound="rounded rectangle <= 6x6, four independent corner radii that fit the rectangle (no confinement needed), position +-1024" timeout=3000 fns=src/primitives/rounded_rectangle/points.rs::Scanlines::next;src/primitives/rounded_rectangle/mod.rs::RoundedRectangleContains::new;src/primitives/rounded_rectangle/mod.rs::RoundedRectangleContains::contains
    #[kani::proof]
    #[kani::unwind(9)]
    #[kani::stub(crate::primitives::ellipse::EllipseContains::contains, crate::primitives::ellipse::verif_ell::contains_by_contract)]
    #[kani::stub(crate::primitives::rounded_rectangle::CornerRadii::confine, crate::primitives::rounded_rectangle::corner_radii::verif_cr::confine_by_contract)]
    fn c05_rounded_rect_row_fitting_corners() {
        let rr = any_rr(6, 6, false);
        kani::assume(fits(&rr));
        row(rr, 14);
    }
    //@harness prop=C05 kind=bounded tier=thorough class=P bound="rounded rectangle <= 4x4, equal corner radii <= 8x8 incl. radii that must be confined, position (0,0)" timeout=3000
    #[kani::proof]
    #[kani::unwind(9)]
    #[kani::stub(crate::primitives::ellipse::EllipseContains::contains, crate::primitives::ellipse::verif_ell::contains_by_contract)]
    fn c05_rounded_rect_row_confined_corners() {
        let mut rr = any_rr(4, 4, true);
        rr.rectangle.top_left = Point::new(0, 0);
        row(rr, 8);
    }

    /// Tall, narrow rounded rectangles: corner ellipses that are much taller than wide have rows without
    /// any pixel; the row returned for such a y must still be exactly the set contains() accepts.
    //@harness prop=C05,C06 kind=bounded tier=quick class=P bound="rounded rectangle w <= 3, h <= 15 at (0,0), equal corner radii rx <= 1, ry <= 7 that fit; any row, any probe column within +-6" timeout=900 kani="--no-assertion-reach-checks" fns=src/primitives/rounded_rectangle/points.rs::Scanlines::next;src/primitives/rounded_rectangle/mod.rs::RoundedRectangleContains::new;src/primitives/rounded_rectangle/mod.rs::RoundedRectangleContains::contains
    #[kani::proof]
    #[kani::unwind(6)]
    #[kani::stub(crate::primitives::ellipse::EllipseContains::contains, crate::primitives::ellipse::verif_ell::contains_by_contract)]
    #[kani::stub(crate::primitives::rounded_rectangle::CornerRadii::confine, crate::primitives::rounded_rectangle::corner_radii::verif_cr::confine_by_contract)]
    fn c05_rounded_rect_row_thin_corners() {
        let bits = |m: u8| (kani::any::<u8>() & m) as u32;
        let (w, h, rx, ry) = (bits(3), bits(15), bits(1), bits(7));
        kani::assume(2 * rx <= w && 2 * ry <= h);
        let rr = RoundedRectangle::with_equal_corners(Rectangle::new(Point::new(0, 0), Size::new(w, h)), Size::new(rx, ry));
        row(rr, 6);
        kani::cover!(w == 2 && h == 8 && rx == 1 && ry == 4);
    }

    /// Four *different* corner radii (each corner its own width and height): the row of the real scanline
    /// iterator is still exactly the set contains() accepts -- decides that both use the same corner for the
    /// same quadrant rows (left/right, top/bottom mix-ups need unequal radii to show).
    //@harness prop=C05,C06 kind=bounded tier=quick class=P bound="rounded rectangle w <= 4, h <= 7 at (0,0), four independent corner radii rx <= 2, ry <= 3 that fit; any row, probe column within +-6" timeout=900 kani="--no-assertion-reach-checks" fns=src/primitives/rounded_rectangle/points.rs::Scanlines::next;src/primitives/rounded_rectangle/mod.rs::RoundedRectangleContains::new;src/primitives/rounded_rectangle/mod.rs::RoundedRectangleContains::contains
    #[kani::proof]
    #[kani::unwind(7)]
    #[kani::stub(crate::primitives::ellipse::EllipseContains::contains, crate::primitives::ellipse::verif_ell::contains_by_contract)]
    #[kani::stub(crate::primitives::rounded_rectangle::CornerRadii::confine, crate::primitives::rounded_rectangle::corner_radii::verif_cr::confine_by_contract)]
    fn c05_rounded_rect_row_unequal_corners() {
        let bits = |m: u8| (kani::any::<u8>() & m) as u32;
        let (w, h) = (bits(7), bits(7));
        kani::assume(w <= 4);
        let corner = || {
            let c = Size::new(bits(3), bits(3));
            kani::assume(c.width <= 2);
            c
        };
        let corners = CornerRadii { top_left: corner(), top_right: corner(), bottom_right: corner(), bottom_left: corner() };
        let rr = RoundedRectangle::new(Rectangle::new(Point::new(0, 0), Size::new(w, h)), corners);
        kani::assume(fits(&rr));
        row2(rr, 6, true);
        kani::cover!(corners.bottom_left.height == 1 && corners.bottom_right.height == 3 && corners.bottom_left.width == 2);
    }

    /// contains() is false outside the bounding box (loop-free)
    //@harness prop=C05 kind=lemma tier=quick class=P fns=src/primitives/rounded_rectangle/mod.rs::RoundedRectangle::contains
    #[kani::proof]
    fn c05_rounded_rect_outside_false() {
        let rr = any_rr(64, 64, false);
        let q = any_point(2048);
        if !sp::contains(&rr.bounding_box(), q) {
            assert!(!rr.contains(q));
        }
        kani::cover!(rr.contains(q));
    }
}
//@end

// ------------------------------------------------------------------ Sector (tiny, from the constructor)
// Kani resolves `f32::sin/cos` to std's intrinsics (std is in the crate graph of a Kani build through the
// kani library, so the inherent methods win over micromath's `F32Ext`), and models these intrinsics as
// NONDETERMINISTIC values: two calls of PlaneSector::new with the same angles give different results, which
// made a direct points()/contains() comparison fail although the real (micromath) code agrees (false alarm,
// see DESIGN.md). The harness below therefore replaces PlaneSector::new by an ARBITRARY BUT FIXED plane
// sector (any normals within the scaled range, any operation): points() == contains() is proved for every
// value PlaneSector::new could return; that it is a pure function of its arguments is the listed assumption.
//@append src/primitives/common/plane_sector.rs
#[cfg(kani)]
#[allow(missing_docs, trivial_casts, trivial_numeric_casts, unused_qualifications, dead_code, unused)]
pub(in crate::primitives) mod verif_ps {
    use super::*;
    pub static mut FIXED: Option<PlaneSector> = None;
    /// any plane sector with small normals (-8..=7 in both components; the real ones are scaled by 1024:
    /// products of wide symbolic factors on both sides of an equality are out of the SAT solver's reach),
    /// any operation
    pub fn any_plane_sector() -> PlaneSector {
        let n = || Point::new((kani::any::<u8>() & 15) as i32 - 8, (kani::any::<u8>() & 15) as i32 - 8);
        PlaneSector {
            half_plane_left: OriginLinearEquation { normal_vector: n() },
            half_plane_right: OriginLinearEquation { normal_vector: n() },
            operation: match kani::any::<u8>() % 3 { 0 => Operation::Intersection, 1 => Operation::Union, _ => Operation::EntirePlane },
        }
    }
    impl PlaneSector {
        pub fn verif_is_intersection(&self) -> bool {
            self.operation == Operation::Intersection
        }
    }
    /// stands for PlaneSector::new as a pure function: the same (arbitrary) value at every call
    pub fn new_fixed(_angle_start: Angle, _angle_sweep: Angle) -> PlaneSector {
        unsafe { FIXED.unwrap() }
    }
}
//@end
//@append src/primitives/common/mod.rs
#[cfg(kani)]
pub(in crate::primitives) use plane_sector::verif_ps;
//@end
//@append src/primitives/common/distance_iterator.rs
#[cfg(kani)]
impl DistanceIterator {
    pub(in crate::primitives) fn verif_set_points(&mut self, points: rectangle::Points) {
        self.points = points;
    }
}
//@end
//@append src/primitives/sector/points.rs
#[cfg(kani)]
#[allow(missing_docs, trivial_casts, trivial_numeric_casts, unused_qualifications, dead_code, unused)]
mod verif_c05s {
    use super::*;
    use crate::{
        geometry::{Angle, Dimensions, Size},
        primitives::{common::verif_ps, ContainsPoint, PointsIter, Rectangle},
        verif_probe::{any_point, sp},
    };

    /// Step contract (class I over a generalised state: the remaining points are those of ANY one-row
    /// rectangle of up to 3 points inside the bounding box instead of the real remaining rows): next()
    /// returns the first remaining point that contains() accepts, skipping exactly the points it rejects;
    /// the constructor iterates the bounding box (row-major, each point once: C16 rectangle::Points).
    //@harness prop=C05 kind=step tier=quick class=I bound="diameter <= 15, position within +-64; remaining run of <= 3 points; every pair of half-plane normals with components in -8..=7 and every operation in place of the value of PlaneSector::new (assumed pure)" timeout=900 kani="--no-assertion-reach-checks" fns=src/primitives/sector/points.rs::Points::new;src/primitives/sector/points.rs::Points::next;src/primitives/sector/mod.rs::Sector::contains;src/primitives/common/distance_iterator.rs::DistanceIterator::next;src/primitives/common/distance_iterator.rs::DistanceIterator::new
    #[kani::proof]
    #[kani::unwind(5)]
    #[kani::stub(crate::primitives::common::PlaneSector::new, crate::primitives::common::plane_sector::verif_ps::new_fixed)]
    fn c05_sector_points_step() {
        let d = (kani::any::<u8>() & 15) as u32;
        unsafe { verif_ps::FIXED = Some(verif_ps::any_plane_sector()) };
        let s = Sector::new(any_point(64), d, Angle::zero(), Angle::zero());
        let mut it = s.points();
        // constructor: all points of the bounding box, distances measured from the doubled centre
        let c2 = Point::new(2 * s.top_left.x + d as i32 - 1, 2 * s.top_left.y + d as i32 - 1);
        assert!(it.iter == DistanceIterator::new(if d == 0 { s.top_left * 2 } else { c2 }, &s.bounding_box()));
        // generalised state: a run of n <= 3 points of one row of the bounding box
        let p0 = any_point(256);
        let n = (kani::any::<u8>() & 3) as u32;
        let run = Rectangle::new(p0, Size::new(n, 1));
        kani::assume(n == 0 || sp::subset(&run, &s.bounding_box()));
        it.iter.verif_set_points(run.points());
        let r = it.next();
        let at = |i: i32| Point::new(p0.x + i, p0.y);
        let c = |i: i32| (i as u32) < n && s.contains(at(i));
        let expected = if c(0) { Some(at(0)) } else if c(1) { Some(at(1)) } else if c(2) { Some(at(2)) } else { None };
        assert!(r == expected);
        kani::cover!(r == Some(at(2)));
        kani::cover!(r.is_none() && n == 3 && unsafe { verif_ps::FIXED.unwrap() }.verif_is_intersection());
    }
}
//@end
