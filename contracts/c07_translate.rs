//! Unit `c07_translate`: rendering commutes with translation (property C07). Relational (two-run)
//! harnesses: x.translate(d) observed at q + d versus x observed at q.
//@unit c07_translate
//@crate main
//@needs arb probe ellipse_contract c06_styled

//@append src/primitives/mod.rs
#[cfg(kani)]
#[allow(missing_docs, trivial_casts, trivial_numeric_casts, unused_qualifications, dead_code, unused)]
mod verif_c07 {
    use super::*;
    use super::primitive_style::verif_c06s::any_style;
    use crate::{
        geometry::{Dimensions, Size},
        pixelcolor::Gray8,
        transform::Transform,
        verif_probe::{any_point, any_rect, everything, sp, ProbeNative, ProbeState},
        Drawable,
    };

    const D: i64 = 2048;
    fn shift(p: Point, d: Point) -> Point {
        Point::new(p.x + d.x, p.y + d.y)
    }

    /// Transform implementations add d to the anchoring points only, and translate_mut == translate
    //@harness prop=C07 kind=contract tier=quick class=P fns=src/primitives/*/mod.rs::Transform::translate;src/primitives/*/mod.rs::Transform::translate_mut
    #[kani::proof]
    #[kani::unwind(5)]
    fn c07_transform_impls() {
        let d = any_point(D);
        let r = any_rect(D);
        let mut r2 = r;
        assert!(r.translate(d) == Rectangle::new(shift(r.top_left, d), r.size) && *r2.translate_mut(d) == r.translate(d));
        let c = Circle::new(any_point(D), kani::any());
        let mut c2 = c;
        assert!(c.translate(d) == Circle::new(shift(c.top_left, d), c.diameter) && *c2.translate_mut(d) == c.translate(d));
        let e = Ellipse::new(any_point(D), kani::any());
        let mut e2 = e;
        assert!(e.translate(d) == Ellipse::new(shift(e.top_left, d), e.size) && *e2.translate_mut(d) == e.translate(d));
        let l = Line::new(any_point(D), any_point(D));
        let mut l2 = l;
        assert!(l.translate(d) == Line::new(shift(l.start, d), shift(l.end, d)) && *l2.translate_mut(d) == l.translate(d));
        let t = Triangle::new(any_point(D), any_point(D), any_point(D));
        let mut t2 = t;
        assert!(t.translate(d) == Triangle::new(shift(t.vertices[0], d), shift(t.vertices[1], d), shift(t.vertices[2], d)) && *t2.translate_mut(d) == t.translate(d));
        let rr = RoundedRectangle::new(r, kani::any::<CornerRadii>());
        let mut rr2 = rr;
        assert!(rr.translate(d) == RoundedRectangle::new(r.translate(d), rr.corners) && *rr2.translate_mut(d) == rr.translate(d));
        let style = any_style(64);
        let s = c.into_styled(style);
        let mut s2 = s;
        assert!(s.translate(d).primitive == c.translate(d) && s.translate(d).style == style && *s2.translate_mut(d) == s.translate(d));
        kani::cover!(d.x < 0 && d.y > 0);
    }

    /// Transform implementations of the remaining drawables: polylines (also ones that already carry an
    /// offset: translations accumulate, vertices untouched), arcs, sectors, images and text move their
    /// anchor by d and keep everything else; translate_mut == translate; bounding boxes of polylines and
    /// images shift by d.
    //@harness prop=C07 kind=contract tier=quick class=P fns=src/primitives/polyline/mod.rs::Polyline::translate;src/primitives/polyline/mod.rs::Polyline::translate_mut;src/primitives/arc/mod.rs::Arc::translate;src/primitives/sector/mod.rs::Sector::translate;src/image/mod.rs::Image::translate;src/text/text.rs::Text::translate
    #[kani::proof]
    #[kani::unwind(8)]
    fn c07_transform_impls_open_shapes_images_text() {
        use crate::{geometry::AngleUnit, image::{Image, ImageRaw}, mono_font::{ascii::FONT_6X9, MonoTextStyle}, text::Text};
        let d = any_point(D);
        let v = [any_point(D), any_point(D), any_point(D)];
        let t0 = any_point(D);
        let p = Polyline { translate: t0, vertices: &v };
        let mut p2 = p;
        let moved = p.translate(d);
        assert!(moved.translate == shift(t0, d) && moved.vertices.len() == 3 && moved.vertices[0] == v[0] && moved.vertices[1] == v[1] && moved.vertices[2] == v[2]);
        let pm = p2.translate_mut(d);
        assert!(pm.translate == moved.translate && pm.vertices.as_ptr() == moved.vertices.as_ptr() && pm.vertices.len() == 3 && moved.vertices.as_ptr() == v.as_ptr());
        let (b0, b1) = (p.bounding_box(), moved.bounding_box());
        assert!(b1 == Rectangle::new(shift(b0.top_left, d), b0.size));
        let a = Arc::new(any_point(D), kani::any(), 10.0.deg(), 70.0.deg());
        let mut a2 = a;
        assert!(a.translate(d) == Arc::new(shift(a.top_left, d), a.diameter, a.angle_start, a.angle_sweep) && *a2.translate_mut(d) == a.translate(d));
        let s = Sector::new(any_point(D), kani::any(), 10.0.deg(), 70.0.deg());
        let mut s2 = s;
        assert!(s.translate(d) == Sector::new(shift(s.top_left, d), s.diameter, s.angle_start, s.angle_sweep) && *s2.translate_mut(d) == s.translate(d));
        let data = [0u8; 2];
        let raw: ImageRaw<Gray8> = ImageRaw::new(&data, Size::new(2, 1)).unwrap();
        let pos = any_point(D);
        let img = Image::new(&raw, pos);
        let mut img2 = img;
        assert!(img.translate(d) == Image::new(&raw, shift(pos, d)) && *img2.translate_mut(d) == img.translate(d));
        assert!(img.translate(d).bounding_box() == Rectangle::new(shift(pos, d), Size::new(2, 1)));
        let style = MonoTextStyle::new(&FONT_6X9, Gray8::new(1));
        let txt = Text::new("ab", pos, style);
        let mut txt2 = txt.clone();
        let tm = txt.translate(d);
        assert!(tm.position == shift(pos, d) && tm.text.len() == 2 && tm.text.as_ptr() == txt.text.as_ptr() && tm.text_style == txt.text_style);
        assert!(core::ptr::eq(tm.character_style.font, txt.character_style.font) && tm.character_style.text_color == txt.character_style.text_color);
        let tm2 = txt2.translate_mut(d);
        assert!(tm2.position == tm.position && tm2.text.as_ptr() == tm.text.as_ptr() && tm2.text.len() == 2 && tm2.text_style == tm.text_style && core::ptr::eq(tm2.character_style.font, tm.character_style.font));
        kani::cover!(d.x < 0 && d.y > 0 && t0.x != 0);
    }

    /// contains() and bounding boxes of closed shapes shift by d (positions and offsets that move the
    /// object across the coordinate axes are included: all in +-2048)
    //@harness prop=C07 kind=lemma tier=quick class=P fns=src/primitives/circle/mod.rs::Circle::contains;src/primitives/rectangle/mod.rs::Rectangle::contains;src/primitives/circle/mod.rs::Circle::bounding_box
    #[kani::proof]
    fn c07_circle_rectangle_contains_commute() {
        let d = any_point(D);
        let q = any_point(D);
        let dia: u32 = kani::any();
        kani::assume(dia <= 2048);
        let c = Circle::new(any_point(D), dia);
        assert!(c.translate(d).contains(shift(q, d)) == c.contains(q));
        assert!(c.translate(d).bounding_box() == c.bounding_box().translate(d));
        assert!(c.translate(d).center() == shift(c.center(), d));
        let r = any_rect(D);
        assert!(r.translate(d).contains(shift(q, d)) == r.contains(q));
        let style = any_style(64);
        assert!(c.translate(d).into_styled(style).bounding_box() == c.into_styled(style).bounding_box().translate(d));
        assert!(r.translate(d).into_styled(style).bounding_box() == r.into_styled(style).bounding_box().translate(d));
        kani::cover!(c.contains(q) && c.top_left.x < 0 && c.translate(d).top_left.x > 0);
    }

    //@harness prop=C07 kind=lemma tier=quick class=P bound="ellipse axes <= 64 (domain of the EllipseContains contract)" fns=src/primitives/ellipse/mod.rs::Ellipse::contains;src/primitives/ellipse/mod.rs::Ellipse::bounding_box
    #[kani::proof]
    fn c07_ellipse_contains_commutes() {
        let d = any_point(D);
        let s: Size = kani::any();
        kani::assume(s.width <= 64 && s.height <= 64);
        let e = Ellipse::new(any_point(D), s);
        let q = any_point(2 * D);
        kani::assume((q.x as i64 - e.top_left.x as i64).abs() <= 128 && (q.y as i64 - e.top_left.y as i64).abs() <= 128);
        // the translation-invariant normal form handed to EllipseContains is preserved ...
        let t = e.translate(d);
        assert!(t.size == e.size && t.bounding_box() == e.bounding_box().translate(d) && t.center() == shift(e.center(), d));
        // ... and so is the result
        assert!(t.contains(shift(q, d)) == e.contains(q));
        kani::cover!(e.contains(q));
    }

    /// Styled rectangle: the pixel map of the translated shape is the shifted pixel map (probe q + d vs q)
    /// quick form: fill_area / stroke_area / styled box of the translated rectangle are the translated
    /// areas; with the C06 pixel-map lemma (colour at q is a function of these areas and the style) the
    /// pixel map commutes. The direct two-run probe comparison below is the thorough form.
    //@harness prop=C07 kind=lemma tier=quick class=P fns=src/primitives/rectangle/mod.rs::Rectangle::offset;src/primitives/styled.rs::Styled::translate
    #[kani::proof]
    fn c07_rectangle_areas_commute() {
        let d = any_point(D);
        let r = any_rect(D);
        let style = any_style(2048);
        let (a, b) = (r.into_styled(style), r.translate(d).into_styled(style));
        assert!(b.fill_area() == a.fill_area().translate(d));
        assert!(b.stroke_area() == a.stroke_area().translate(d));
        assert!(b.bounding_box() == a.bounding_box().translate(d));
        assert!(b == a.translate(d));
        kani::cover!(!sp::is_empty(&a.fill_area()));
    }
    /// one-run form: the translated rectangle drawn on a target with an arbitrary bounding box paints
    /// q + d with the colour the statement of C06 prescribes for q from the UNtranslated areas
    //@harness prop=C07 kind=lemma tier=quick class=P timeout=900 fns=src/primitives/rectangle/styled.rs::Rectangle::draw_styled
    #[kani::proof]
    fn c07_rectangle_draw_translated_probe() {
        let d = any_point(D);
        let r = any_rect(D);
        let style = any_style(2048);
        let q = any_point(4 * D);
        let s0 = r.into_styled(style);
        let (fa, sa) = (s0.fill_area(), s0.stroke_area());
        let mut b = ProbeNative::<Gray8>(ProbeState::new(shift(q, d), any_rect(D), everything()));
        r.translate(d).into_styled(style).draw(&mut b).unwrap();
        let expected = if sp::contains(&fa, q) { style.fill_color } else if sp::contains(&sa, q) && style.stroke_width > 0 { style.stroke_color } else { None };
        assert!(b.0.last == expected);
        kani::cover!(expected.is_some());
    }
    //@harness prop=C07 kind=lemma tier=thorough class=P timeout=3000 fns=src/primitives/rectangle/styled.rs::Rectangle::draw_styled
    #[kani::proof]
    fn c07_rectangle_draw_commutes() {
        let d = any_point(D);
        let r = any_rect(D);
        let style = any_style(2048);
        let q = any_point(4 * D);
        let mut a = ProbeNative::<Gray8>(ProbeState::new(q, any_rect(D), everything()));
        let mut b = ProbeNative::<Gray8>(ProbeState::new(shift(q, d), any_rect(D), everything()));
        r.into_styled(style).draw(&mut a).unwrap();
        r.translate(d).into_styled(style).draw(&mut b).unwrap();
        assert!(a.0.last == b.0.last);
        kani::cover!(a.0.last.is_some());
    }

    /// Lines: the iterator over the translated line has the same parameters, length and error term and
    /// starts d further; each step adds the same position steps, so every point is shifted by d.
    //@harness prop=C07 kind=lemma tier=quick class=P fns=src/primitives/line/points.rs::Points::new;src/primitives/line/bresenham.rs::Bresenham::next
    #[kani::proof]
    fn c07_line_points_commute() {
        use crate::primitives::PointsIter;
        let d = any_point(D);
        let l = Line::new(any_point(D), any_point(D));
        let mut a = l.points();
        let mut b = l.translate(d).points();
        // first two steps from the constructor
        assert!(b.next() == a.next().map(|p| shift(p, d)));
        assert!(b.next() == a.next().map(|p| shift(p, d)));
        // the states stay related (same error/parameters/remaining, points d apart): checked through Debug-free equality
        let mut a2 = a;
        let mut b2 = b;
        assert!(b2.next() == a2.next().map(|p| shift(p, d)));
        assert!(l.translate(d).bounding_box() == l.bounding_box().translate(d));
        kani::cover!(l.start != l.end);
    }

    //@harness prop=C07 kind=canary tier=quick class=P expect=fail
    #[kani::proof]
    fn c07_canary() {
        let d = any_point(D);
        let c = Circle::new(any_point(D), 9);
        let q = any_point(D);
        assert!(c.translate(d).contains(q) == c.contains(q));
    }
}
//@end

//@append src/primitives/polyline/points.rs
#[cfg(kani)]
#[allow(missing_docs, trivial_casts, trivial_numeric_casts, unused_qualifications, dead_code, unused)]
mod verif_c07p {
    use super::*;
    use crate::{geometry::Dimensions, transform::Transform, verif_probe::any_point};

    /// A polyline moved with translate() and one whose vertices were moved yield the same points and
    /// bounding box (constructor, first points and the switch to the second segment).
    //@harness prop=C07,C19 kind=bounded tier=thorough class=P bound="3 vertices, unit or zero length segments, first 4 points" timeout=3000 fns=src/primitives/polyline/points.rs::Points::new;src/primitives/polyline/points.rs::Points::next;src/primitives/polyline/mod.rs::Polyline::bounding_box
    #[kani::proof]
    #[kani::unwind(5)]
    fn c07_polyline_translate_vs_moved_vertices() {
        let d = any_point(1024);
        let v0 = any_point(1024);
        let (s1, s2) = (any_point(1), any_point(1));
        let v = [v0, v0 + s1, v0 + s1 + s2];
        let moved = [v[0] + d, v[1] + d, v[2] + d];
        let a = Polyline::new(&v).translate(d);
        let b = Polyline::new(&moved);
        assert!(a.bounding_box() == b.bounding_box());
        assert!(a.bounding_box().top_left == Polyline::new(&v).bounding_box().top_left + d);
        let (mut pa, mut pb) = (a.points(), b.points());
        let mut k = 0;
        while k < 4 {
            assert!(pa.next() == pb.next());
            k += 1;
        }
        kani::cover!(s1.x == 1 && s2.y == -1);
    }
}
//@end

//@append src/primitives/line/intersection_params.rs
#[cfg(kani)]
#[allow(missing_docs, trivial_casts, trivial_numeric_casts, unused_qualifications, dead_code, unused)]
mod verif_c07j {
    use super::*;
    use crate::{transform::Transform, verif_probe::any_point};

    fn small_point(b: i32) -> Point {
        let (x, y): (i8, i8) = (kani::any(), kani::any());
        kani::assume(-b <= x as i32 && x as i32 <= b && -b <= y as i32 && y as i32 <= b);
        Point::new(x as i32, y as i32)
    }

    /// Join corners: the intersection of two translated edge lines is the translated intersection.
    /// (Miter/bevel corners of thick triangles and polylines are computed from it.)
    //@harness prop=C07 kind=witness tier=quick class=P expect=fail finding=C07-F1 bound="line end points within +-12, offsets within +-12" fns=src/primitives/line/intersection_params.rs::IntersectionParams::intersection
    #[kani::proof]
    fn c07_join_intersection_commutes() {
        let l1 = Line::new(small_point(12), small_point(12));
        let l2 = Line::new(small_point(12), small_point(12));
        let d = small_point(12);
        let (t1, t2) = (l1.translate(d), l2.translate(d));
        let a = IntersectionParams::from_lines(&l1, &l2).intersection();
        let b = IntersectionParams::from_lines(&t1, &t2).intersection();
        match (a, b) {
            (Intersection::Point { point: pa, outer_side: sa }, Intersection::Point { point: pb, outer_side: sb }) => {
                assert!(pb == pa + d && sa == sb);
            }
            (Intersection::Colinear, Intersection::Colinear) => {}
            _ => assert!(false),
        }
    }
    /// ... what does hold: colinearity and the outer side are translation invariant, and the corner
    /// moves by d up to one pixel per axis (rounding of a half-way value is symmetric about the origin)
    //@harness prop=C07 kind=lemma tier=thorough class=P bound="line end points within +-12, offsets within +-12" timeout=3000 fns=src/primitives/line/intersection_params.rs::IntersectionParams::from_lines
    #[kani::proof]
    fn c07_join_intersection_commutes_up_to_rounding() {
        let l1 = Line::new(small_point(12), small_point(12));
        let l2 = Line::new(small_point(12), small_point(12));
        let d = small_point(12);
        let (t1, t2) = (l1.translate(d), l2.translate(d));
        let a = IntersectionParams::from_lines(&l1, &l2).intersection();
        let b = IntersectionParams::from_lines(&t1, &t2).intersection();
        match (a, b) {
            (Intersection::Point { point: pa, outer_side: sa }, Intersection::Point { point: pb, outer_side: sb }) => {
                assert!(sa == sb);
                assert!((pb.x - pa.x - d.x).abs() <= 1 && (pb.y - pa.y - d.y).abs() <= 1);
            }
            (Intersection::Colinear, Intersection::Colinear) => {}
            _ => assert!(false),
        }
        kani::cover!(matches!(a, Intersection::Point { .. }));
    }
}
//@end
