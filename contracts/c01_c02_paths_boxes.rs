//! Unit `c01_c02_paths_boxes`: additional obligations for C01 (one image whichever drawing path) and
//! C02 (bounding boxes contain everything drawn; transparent styles draw nothing). Most obligations of
//! these two properties live in the units of C03/C06/C09/C14/C15/C17 and carry both property tags.
//@unit c01_c02_paths_boxes
//@crate main
//@needs arb probe c06_styled

//@append src/primitives/mod.rs
#[cfg(kani)]
#[allow(missing_docs, trivial_casts, trivial_numeric_casts, unused_qualifications, dead_code, unused)]
mod verif_c02 {
    use super::*;
    use super::primitive_style::verif_c06s::any_style;
    use crate::{
        geometry::{Dimensions, Size},
        pixelcolor::Gray8,
        verif_probe::{any_point, any_rect, everything, sp, ProbeNative, ProbeState},
        Drawable,
    };

    /// A completely transparent style draws nothing: no target call at all (rectangle, circle, ellipse:
    /// the transparent paths are loop-free; the other drawables are in the thorough harness below).
    //@harness prop=C02 kind=lemma tier=thorough class=P timeout=3000 fns=src/primitives/*/styled.rs::draw_styled(transparent)
    #[kani::proof]
    #[kani::unwind(3)]
    fn c02_transparent_style_draws_nothing() {
        let mut style = any_style(64);
        kani::assume(style.is_transparent());
        let mut t = ProbeNative::<Gray8>(ProbeState::new(any_point(4096), any_rect(1024), everything()));
        let r = any_rect(1024);
        match kani::any::<u8>() % 3 {
            0 => r.into_styled(style).draw(&mut t).unwrap(),
            1 => Circle::new(r.top_left, r.size.width).into_styled(style).draw(&mut t).unwrap(),
            _ => Ellipse::new(r.top_left, r.size).into_styled(style).draw(&mut t).unwrap(),
        }
        assert!(t.0.calls == 0 || (t.0.writes == 0 && t.0.last.is_none()));
        assert!(t.0.writes == 0 && t.0.last.is_none());
        kani::cover!(style.stroke_color.is_some());
    }
    //@harness prop=C02 kind=bounded tier=thorough class=P bound="triangle / polyline / line / rounded rectangle with vertices within +-8" timeout=3000
    #[kani::proof]
    #[kani::unwind(12)]
    fn c02_transparent_triangle_polyline_draw_nothing() {
        let mut style = any_style(4);
        kani::assume(style.is_transparent());
        let mut t = ProbeNative::<Gray8>(ProbeState::new(any_point(64), any_rect(64), everything()));
        let v = [any_point(8), any_point(8), any_point(8)];
        match kani::any::<u8>() % 4 {
            0 => Triangle::new(v[0], v[1], v[2]).into_styled(style).draw(&mut t).unwrap(),
            1 => Polyline::new(&v).into_styled(style).draw(&mut t).unwrap(),
            2 => Line::new(v[0], v[1]).into_styled(style).draw(&mut t).unwrap(),
            _ => RoundedRectangle::with_equal_corners(Rectangle::new(v[0], Size::new(6, 5)), Size::new(2, 2)).into_styled(style).draw(&mut t).unwrap(),
        }
        assert!(t.0.writes == 0 && t.0.last.is_none());
        kani::cover!(true);
    }

    /// closed shapes: the styled bounding box is the bounding box of the stroke area (C06 proves that
    /// nothing is painted outside the stroke area)
    //@harness prop=C02 kind=lemma tier=quick class=P fns=src/primitives/ellipse/styled.rs::Ellipse::styled_bounding_box;src/primitives/rounded_rectangle/styled.rs::RoundedRectangle::styled_bounding_box;src/primitives/circle/styled.rs::Circle::styled_bounding_box
    #[kani::proof]
    fn c02_closed_shape_styled_boxes() {
        let style = any_style(128);
        let r = any_rect(1024);
        kani::assume(!sp::is_empty(&r));
        let e = Ellipse::new(r.top_left, r.size).into_styled(style);
        assert!(e.bounding_box() == e.stroke_area().bounding_box());
        let rr = RoundedRectangle::with_equal_corners(r, Size::new(kani::any::<u8>() as u32, kani::any::<u8>() as u32)).into_styled(style);
        assert!(rr.bounding_box() == rr.stroke_area().bounding_box());
        let c = Circle::new(r.top_left, r.size.width).into_styled(style);
        assert!(c.bounding_box() == c.stroke_area().bounding_box());
        let rs = r.into_styled(style);
        assert!(rs.bounding_box() == rs.stroke_area());
        kani::cover!(style.outside_stroke_width() > 0);
    }
}
//@end

//@append src/primitives/common/styled_scanline.rs
#[cfg(kani)]
#[allow(missing_docs, trivial_casts, trivial_numeric_casts, unused_qualifications, dead_code, unused)]
mod verif_c01l {
    use super::*;
    use crate::{
        pixelcolor::Gray8,
        verif_probe::{any_point, any_rect, everything, ProbeIter, ProbeNative, ProbeState},
    };

    /// Every closed shape, triangle and polyline is emitted as 1-px-high fill_solid rectangles: a styled
    /// scanline leaves the same pixels on a draw_iter-only target (trait defaults) and on a native one.
    //@harness prop=C01 kind=bounded tier=quick class=I bound="scanline ranges <= 4 columns (the default fill_solid iterates the points)" fns=src/primitives/common/styled_scanline.rs::StyledScanline::draw_stroke_and_fill;src/primitives/common/scanline.rs::Scanline::draw
    #[kani::proof]
    #[kani::unwind(7)]
    fn c01_styled_scanline_iter_vs_native() {
        let s = super::verif_c06l::any_styled_scanline();
        kani::assume(s.stroke_range.end - s.stroke_range.start <= 4);
        let q = any_point(16384);
        let (sc, fc) = (Gray8::new(kani::any()), Gray8::new(kani::any()));
        let mut a = ProbeNative::<Gray8>(ProbeState::new(q, any_rect(4096), everything()));
        let mut b = ProbeIter::<Gray8>(ProbeState::new(q, any_rect(4096), everything()));
        s.draw_stroke_and_fill(&mut a, sc, fc).unwrap();
        s.draw_stroke_and_fill(&mut b, sc, fc).unwrap();
        assert!(a.0.last == b.0.last && a.0.writes == b.0.writes);
        kani::cover!(a.0.last == Some(fc));
        kani::cover!(a.0.last == Some(sc));
    }
}
//@end

//@append src/primitives/common/thick_segment.rs
#[cfg(kani)]
#[allow(missing_docs, trivial_casts, trivial_numeric_casts, unused_qualifications, dead_code, unused)]
mod verif_c02ts {
    use super::*;
    use crate::{
        geometry::Point,
        primitives::common::{line_join::EdgeCorners, JoinKind, LineSide},
        verif_probe::{any_point, sp},
    };

    fn any_join() -> LineJoin {
        let side = if kani::any() { LineSide::Left } else { LineSide::Right };
        let kind = match kani::any::<u8>() % 6 {
            0 => JoinKind::Miter,
            1 => JoinKind::Bevel { outer_side: side },
            2 => JoinKind::Degenerate { outer_side: side },
            3 => JoinKind::Colinear,
            4 => JoinKind::Start,
            _ => JoinKind::End,
        };
        LineJoin {
            kind,
            first_edge_end: EdgeCorners { left: any_point(4096), right: any_point(4096) },
            second_edge_start: EdgeCorners { left: any_point(4096), right: any_point(4096) },
        }
    }

    /// ThickSegment::edges_bounding_box (the per-segment term of the styled bounding box of thick polylines
    /// and of triangles with Center/Outside strokes): the *tight* box of the four corner points of the
    /// segment's left and right edge (the start joint's second-edge corners and the end joint's first-edge
    /// corners), for arbitrary joints; a skeleton segment (left == right) gives the box of its single line.
    //@harness prop=C02,C08 kind=contract tier=quick class=P fns=src/primitives/common/thick_segment.rs::ThickSegment::edges_bounding_box;src/primitives/common/thick_segment.rs::ThickSegment::edges;src/primitives/common/thick_segment.rs::ThickSegment::is_skeleton
    #[kani::proof]
    fn c02_thick_segment_edges_box() {
        let (sj, ej) = (any_join(), any_join());
        let s = ThickSegment::new(sj, ej);
        let r = s.edges_bounding_box();
        let (a, b, c, d) = (sj.second_edge_start.right, ej.first_edge_end.right, ej.first_edge_end.left, sj.second_edge_start.left);
        let skeleton = sj.first_edge_end.left == sj.first_edge_end.right;
        let (x0, x1, y0, y1) = if skeleton {
            (c.x.min(d.x), c.x.max(d.x), c.y.min(d.y), c.y.max(d.y))
        } else {
            (a.x.min(b.x).min(c.x).min(d.x), a.x.max(b.x).max(c.x).max(d.x), a.y.min(b.y).min(c.y).min(d.y), a.y.max(b.y).max(c.y).max(d.y))
        };
        assert!(r.top_left == Point::new(x0, y0));
        assert!(r.size.width as i64 == x1 as i64 - x0 as i64 + 1 && r.size.height as i64 == y1 as i64 - y0 as i64 + 1);
        if !skeleton {
            assert!(sp::contains(&r, a) && sp::contains(&r, b) && sp::contains(&r, c) && sp::contains(&r, d));
        }
        kani::cover!(!skeleton && d.x > a.x && d.x > b.x && d.x > c.x);
        kani::cover!(skeleton);
    }

    /// A skeleton segment (one-pixel stroke) intersects a scanline exactly where the Bresenham line between its
    /// two end vertices does.
    //@harness prop=C19,C02 kind=bounded tier=quick class=P bound="segment end points within 0..=3 x 0..=3 (Bresenham loop), any row" timeout=900 kani="--no-assertion-reach-checks" fns=src/primitives/common/thick_segment.rs::ThickSegment::intersection
    #[kani::proof]
    #[kani::unwind(6)]
    fn c19_thick_segment_skeleton_row() {
        let nib = || (kani::any::<u8>() & 3) as i32;
        let (a, b) = (Point::new(nib(), nib()), Point::new(nib(), nib()));
        let (mut sj, mut ej) = (any_join(), any_join());
        sj.first_edge_end = EdgeCorners { left: a, right: a };
        sj.second_edge_start = EdgeCorners { left: a, right: a };
        ej.first_edge_end = EdgeCorners { left: b, right: b };
        let s = ThickSegment::new(sj, ej);
        let y = (kani::any::<u8>() & 7) as i32 - 1;
        let got = s.intersection(y);
        let mut want = Scanline::new_empty(y);
        want.bresenham_intersection(&Line::new(a, b));
        assert!(got.is_empty() == want.is_empty());
        if !want.is_empty() {
            assert!(got == want);
        }
        kani::cover!(!want.is_empty() && a != b);
    }
}
//@end
