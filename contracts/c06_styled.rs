//! Unit `c06_styled`: stroke and fill of closed shapes follow fill_area()/stroke_area() (property C06).
//@unit c06_styled
//@crate main
//@needs arb probe ellipse_contract

// ------------------------------------------------------------------ PrimitiveStyle: stroke split
//@attach src/primitives/primitive_style.rs :: impl<C> PrimitiveStyle<C> :: pub(crate) const fn outside_stroke_width(&self) -> u32 {
#[kani::ensures(|r: &u32| *r == match self.stroke_alignment { StrokeAlignment::Inside => 0, StrokeAlignment::Center => self.stroke_width / 2, StrokeAlignment::Outside => self.stroke_width })]
//@end
//@attach src/primitives/primitive_style.rs :: impl<C> PrimitiveStyle<C> :: pub(crate) const fn inside_stroke_width(&self) -> u32 {
#[kani::requires(self.stroke_width < u32::MAX)]
#[kani::ensures(|r: &u32| *r == match self.stroke_alignment { StrokeAlignment::Inside => self.stroke_width, StrokeAlignment::Center => self.stroke_width - self.stroke_width / 2, StrokeAlignment::Outside => 0 })]
//@end

//@append src/primitives/primitive_style.rs
#[cfg(kani)]
#[allow(missing_docs, trivial_casts, trivial_numeric_casts, unused_qualifications, dead_code, unused)]
pub(crate) mod verif_c06s {
    use super::*;
    use crate::pixelcolor::Gray8;

    impl<C: PixelColor> kani::Arbitrary for PrimitiveStyle<C>
    where
        C: kani::Arbitrary,
    {
        fn any() -> Self {
            let a: u8 = kani::any();
            Self {
                fill_color: kani::any(),
                stroke_color: kani::any(),
                stroke_width: kani::any(),
                stroke_alignment: match a % 3 { 0 => StrokeAlignment::Inside, 1 => StrokeAlignment::Center, _ => StrokeAlignment::Outside },
                stroke_style: StrokeStyle::Solid,
            }
        }
    }
    /// arbitrary solid style with Gray8 colours (present or absent) and a bounded stroke width
    pub fn any_style(max_stroke: u32) -> PrimitiveStyle<Gray8> {
        let a: u8 = kani::any();
        let sw: u32 = kani::any();
        kani::assume(sw <= max_stroke);
        PrimitiveStyle {
            fill_color: if kani::any() { Some(Gray8::new(kani::any())) } else { None },
            stroke_color: if kani::any() { Some(Gray8::new(kani::any())) } else { None },
            stroke_width: sw,
            stroke_alignment: match a % 3 { 0 => StrokeAlignment::Inside, 1 => StrokeAlignment::Center, _ => StrokeAlignment::Outside },
            stroke_style: StrokeStyle::Solid,
        }
    }

    //@harness prop=C06 kind=contract tier=quick class=P fns=src/primitives/primitive_style.rs::PrimitiveStyle::outside_stroke_width
    #[kani::proof_for_contract(PrimitiveStyle::<Gray8>::outside_stroke_width)]
    fn c06_outside_stroke_width() {
        let s = any_style(u32::MAX);
        let _ = s.outside_stroke_width();
        kani::cover!(true);
    }
    //@harness prop=C06 kind=contract tier=quick class=P fns=src/primitives/primitive_style.rs::PrimitiveStyle::inside_stroke_width
    #[kani::proof_for_contract(PrimitiveStyle::<Gray8>::inside_stroke_width)]
    fn c06_inside_stroke_width() {
        let s = any_style(u32::MAX);
        let _ = s.inside_stroke_width();
        kani::cover!(true);
    }
    /// Inside: all inside; Outside: all outside; Center: the larger half inside; the parts add up.
    //@harness prop=C06,C08 kind=lemma tier=quick class=P
    #[kani::proof]
    #[kani::stub_verified(PrimitiveStyle::<Gray8>::outside_stroke_width)]
    #[kani::stub_verified(PrimitiveStyle::<Gray8>::inside_stroke_width)]
    fn c06_lemma_stroke_split() {
        let s = any_style(u32::MAX - 1);
        let (i, o) = (s.inside_stroke_width(), s.outside_stroke_width());
        assert!(i as u64 + o as u64 == s.stroke_width as u64);
        match s.stroke_alignment {
            StrokeAlignment::Inside => assert!(o == 0),
            StrokeAlignment::Outside => assert!(i == 0),
            StrokeAlignment::Center => assert!(i >= o && i - o <= 1),
        }
        // transparency / effective stroke colour
        assert!(s.is_transparent() == (s.fill_color.is_none() && (s.stroke_color.is_none() || s.stroke_width == 0)));
        assert!(s.effective_stroke_color() == if s.stroke_width > 0 { s.stroke_color } else { None });
        kani::cover!(s.stroke_alignment == StrokeAlignment::Center && s.stroke_width % 2 == 1);
    }
}
//@end

// ------------------------------------------------------------------ Rectangle
//@append src/primitives/rectangle/styled.rs
#[cfg(kani)]
#[allow(missing_docs, trivial_casts, trivial_numeric_casts, unused_qualifications, dead_code, unused)]
mod verif_c06r {
    use super::*;
    use crate::{
        pixelcolor::Gray8,
        primitives::{primitive_style::verif_c06s::any_style, OffsetOutline, Primitive, StrokeAlignment},
        verif_probe::{any_point, any_rect, everything, sp, ProbeIter, ProbeNative, ProbeState, DOM},
        Drawable,
    };

    /// expected colour at q from the statement: fill colour iff fill_area contains q; stroke colour iff
    /// stroke_area contains q and fill_area does not (and the stroke is effective); otherwise untouched
    pub fn expected(fill_area: &Rectangle, stroke_area: &Rectangle, style: &PrimitiveStyle<Gray8>, q: Point) -> Option<Gray8> {
        if sp::contains(fill_area, q) {
            style.fill_color
        } else if sp::contains(stroke_area, q) && style.stroke_width > 0 {
            style.stroke_color
        } else {
            None
        }
    }

    /// Styled rectangle on a native target, every position/size/stroke width <= 4096, three alignments,
    /// colours present/absent: the pixel map at an arbitrary probe point is the one the statement
    /// prescribes, nothing is painted outside the styled bounding box. draw_styled is loop-free.
    //@harness prop=C06,C02,C08,C01 kind=lemma tier=quick class=P fns=src/primitives/rectangle/styled.rs::Rectangle::draw_styled;src/primitives/rectangle/styled.rs::Rectangle::styled_bounding_box
    #[kani::proof]
    fn c06_rectangle_draw_probe() {
        let r = any_rect(DOM);
        let style = any_style(DOM as u32);
        let q = any_point(4 * DOM);
        let styled = r.into_styled(style);
        let (fa, sa) = (styled.fill_area(), styled.stroke_area());
        let bb = styled.bounding_box();
        let mut t = ProbeNative::<Gray8>(ProbeState::new(q, any_rect(DOM), bb));
        styled.draw(&mut t).unwrap();
        assert!(t.0.last == expected(&fa, &sa, &style, q));
        // C02: everything drawn lies inside bounding_box(); a transparent style draws nothing
        assert!(!t.0.escaped);
        if style.is_transparent() {
            assert!(t.0.last.is_none() && t.0.writes == 0);
        }
        kani::cover!(t.0.last.is_some() && t.0.last == style.stroke_color && style.fill_color.is_some());
        kani::cover!(t.0.last.is_some() && t.0.last == style.fill_color && style.stroke_color != style.fill_color);
        kani::cover!(sp::is_empty(&fa) && !sp::is_empty(&r) && t.0.last.is_some());
    }

    /// stroke_area / fill_area: the shape grown on every side by the outside part of the stroke and
    /// shrunk by the inside part (non-degenerate: the shrunk shape keeps a positive size).
    //@harness prop=C06,C02,C08 kind=lemma tier=quick class=P fns=src/primitives/styled.rs::Styled::fill_area;src/primitives/styled.rs::Styled::stroke_area;src/primitives/primitive_style.rs::PrimitiveStyle::stroke_area;src/primitives/primitive_style.rs::PrimitiveStyle::fill_area;src/primitives/rectangle/mod.rs::Rectangle::offset
    #[kani::proof]
    fn c06_rectangle_areas() {
        let r = any_rect(DOM);
        let style = any_style(DOM as u32);
        kani::assume(!sp::is_empty(&r));
        let styled = r.into_styled(style);
        let (fa, sa) = (styled.fill_area(), styled.stroke_area());
        let (i, o) = (style.inside_stroke_width() as i64, style.outside_stroke_width() as i64);
        assert!(sp::left(&sa) == sp::left(&r) - o && sp::right(&sa) == sp::right(&r) + o && sp::top(&sa) == sp::top(&r) - o && sp::bottom(&sa) == sp::bottom(&r) + o);
        if r.size.width as i64 > 2 * i && r.size.height as i64 > 2 * i {
            assert!(sp::left(&fa) == sp::left(&r) + i && sp::right(&fa) == sp::right(&r) - i && sp::top(&fa) == sp::top(&r) + i && sp::bottom(&fa) == sp::bottom(&r) - i);
        } else {
            // stroke wider than the shape: the fill area collapses in that direction
            assert!(sp::is_empty(&fa));
        }
        // an inside stroke never paints outside the shape, an outside stroke never inside it
        if style.stroke_alignment == StrokeAlignment::Inside {
            assert!(sa == r);
        }
        if style.stroke_alignment == StrokeAlignment::Outside {
            assert!(fa == r);
        }
        assert!(sp::subset(&fa, &r) && sp::subset(&r, &sa));
        kani::cover!(sp::is_empty(&fa));
        kani::cover!(!sp::is_empty(&fa) && i > 0 && o > 0);
    }

    /// pixels() fed to draw_iter == draw() (C01 third path), bounded: stroke area <= 3x3
    //@harness prop=C06,C01 kind=bounded tier=quick class=P bound="stroke area <= 3x2 (pixels() iterates its points), stroke width <= 2" unwindset="rectangle::Points as core::iter::Iterator>::next=3" fns=src/primitives/rectangle/styled.rs::StyledPixelsIterator::new;src/primitives/rectangle/styled.rs::StyledPixelsIterator::next
    #[kani::proof]
    #[kani::unwind(8)]
    fn c06_rectangle_pixels_equals_draw() {
        let r = any_rect(64);
        let style = any_style(2);
        let styled = r.into_styled(style);
        let sa = styled.stroke_area();
        kani::assume(sa.size.width <= 3 && sa.size.height <= 2);
        let q = any_point(128);
        let mut a = ProbeNative::<Gray8>(ProbeState::new(q, any_rect(64), everything()));
        let mut b = ProbeIter::<Gray8>(ProbeState::new(q, any_rect(64), everything()));
        styled.draw(&mut a).unwrap();
        b.draw_iter(styled.pixels()).unwrap();
        assert!(a.0.last == b.0.last);
        kani::cover!(a.0.last.is_some() && sa.size.width == 3 && sa.size.height == 2);
    }

    /// pixels() of a styled rectangle as a transition system (C01 third path, unbounded for opaque colours):
    /// the constructor iterates the points of stroke_area() (nothing for a transparent style) and remembers
    /// fill_area() and both colours; a step takes the next point p of that iteration and yields it with the
    /// fill colour if fill_area() contains it and the stroke colour otherwise. With c06_rectangle_draw_probe
    /// (draw() paints exactly this colour function of the two areas) and the rectangle::Points contracts of
    /// C16 (each point of the area once) pixels() fed to draw_iter equals draw().
    //@harness prop=C01,C06 kind=step tier=quick class=I bound="both colours present in the step (a transparent colour makes next() skip points: bounded companion c06_rectangle_pixels_equals_draw)" fns=src/primitives/rectangle/styled.rs::StyledPixelsIterator::new;src/primitives/rectangle/styled.rs::StyledPixelsIterator::next
    #[kani::proof]
    #[kani::unwind(4)]
    fn c01_rectangle_pixels_step() {
        let r = any_rect(DOM);
        let style = any_style(DOM as u32);
        let styled = r.into_styled(style);
        let n = StyledPixelsIterator::new(&r, &style);
        let want_iter = if style.is_transparent() { Points::empty() } else { styled.stroke_area().points() };
        assert!(n.iter == want_iter && n.fill_area == styled.fill_area());
        assert!(n.fill_color == style.fill_color && n.stroke_color == style.stroke_color);
        // step from an arbitrary state of the point iterator
        let pts = Points::verif_any();
        kani::assume(pts.verif_inv());
        let (fc, sc) = (Gray8::new(50), Gray8::new(200));
        let fa = any_rect(DOM);
        let mut it = StyledPixelsIterator { iter: pts.clone(), stroke_color: Some(sc), fill_area: fa, fill_color: Some(fc) };
        let mut peek = pts.clone();
        let r = it.next();
        match peek.next() {
            None => assert!(r.is_none()),
            Some(p) => {
                assert!(r == Some(Pixel(p, if sp::contains(&fa, p) { fc } else { sc })));
                assert!(it.iter == peek);
            }
        }
        assert!(it.fill_area == fa && it.fill_color == Some(fc) && it.stroke_color == Some(sc));
        kani::cover!(r.is_some());
        kani::cover!(r.is_none());
    }

    //@harness prop=C06 kind=canary tier=quick class=P expect=fail
    #[kani::proof]
    fn c06_canary() {
        let r = any_rect(DOM);
        let style = any_style(DOM as u32);
        let q = any_point(4 * DOM);
        let styled = r.into_styled(style);
        let mut t = ProbeNative::<Gray8>(ProbeState::new(q, any_rect(DOM), everything()));
        styled.draw(&mut t).unwrap();
        assert!(t.0.last == if sp::contains(&r, q) { style.fill_color } else { None });
    }
}
//@end

// ------------------------------------------------------------------ StyledScanline / Scanline::draw
//@append src/primitives/common/styled_scanline.rs
#[cfg(kani)]
#[allow(missing_docs, trivial_casts, trivial_numeric_casts, unused_qualifications, dead_code, unused)]
pub(in crate::primitives) mod verif_c06l {
    use super::*;
    use crate::{
        geometry::Point,
        pixelcolor::Gray8,
        verif_probe::{any_point, any_rect, everything, sp, ProbeNative, ProbeState},
    };

    pub fn any_styled_scanline() -> StyledScanline {
        let (a, b, c, d): (i32, i32, i32, i32) = (kani::any(), kani::any(), kani::any(), kani::any());
        kani::assume(-8192 <= a && a <= b && b <= c && c <= d && d <= 8192);
        let y: i32 = kani::any();
        kani::assume(-8192 <= y && y <= 8192);
        StyledScanline { y, stroke_range: a..d, fill_range: b..c }
    }

    /// draw_stroke_and_fill / draw_stroke / Scanline::draw on a native target: a point of row y gets the
    /// stroke colour on stroke_range minus fill_range, the fill colour on fill_range, nothing else is
    /// touched (loop-free: every range).
    //@harness prop=C06,C01,C08 kind=contract tier=quick class=I fns=src/primitives/common/styled_scanline.rs::StyledScanline::draw_stroke_and_fill;src/primitives/common/styled_scanline.rs::StyledScanline::draw_stroke;src/primitives/common/styled_scanline.rs::StyledScanline::stroke_left;src/primitives/common/styled_scanline.rs::StyledScanline::stroke_right;src/primitives/common/styled_scanline.rs::StyledScanline::fill;src/primitives/common/scanline.rs::Scanline::draw
    #[kani::proof]
    fn c06_styled_scanline_draw() {
        let s = any_styled_scanline();
        let q = any_point(16384);
        let (sc, fc) = (Gray8::new(kani::any()), Gray8::new(kani::any()));
        let mut t = ProbeNative::<Gray8>(ProbeState::new(q, any_rect(4096), everything()));
        let in_stroke = q.y == s.y && s.stroke_range.contains(&q.x);
        let in_fill = q.y == s.y && s.fill_range.contains(&q.x);
        if kani::any() {
            s.draw_stroke_and_fill(&mut t, sc, fc).unwrap();
            assert!(t.0.last == if in_fill { Some(fc) } else if in_stroke { Some(sc) } else { None });
        } else {
            s.draw_stroke(&mut t, sc).unwrap();
            assert!(t.0.last == if in_stroke && !in_fill { Some(sc) } else { None });
        }
        assert!(t.0.writes <= 1);
        kani::cover!(in_fill);
        kani::cover!(in_stroke && !in_fill && q.x > s.fill_range.start);
    }

    /// StyledScanline::new: a missing fill range becomes the empty range at the right end of the stroke
    //@harness prop=C06 kind=contract tier=quick class=P fns=src/primitives/common/styled_scanline.rs::StyledScanline::new
    #[kani::proof]
    fn c06_styled_scanline_new() {
        let (a, d): (i32, i32) = (kani::any(), kani::any());
        kani::assume(a <= d);
        let s = StyledScanline::new(kani::any(), a..d, None);
        assert!(s.fill().is_empty() && s.stroke_right().is_empty() && s.stroke_left().x == (a..d));
        kani::cover!(a < d);
    }
}
//@end

// ------------------------------------------------------------------ Circle
//@append src/primitives/circle/styled.rs
#[cfg(kani)]
#[allow(missing_docs, trivial_casts, trivial_numeric_casts, unused_qualifications, dead_code, unused)]
mod verif_c06c {
    use super::*;
    use crate::{
        geometry::Size,
        pixelcolor::Gray8,
        primitives::{primitive_style::verif_c06s::any_style, ContainsPoint, OffsetOutline, Primitive, StrokeAlignment},
        verif_probe::{any_point, any_rect, everything, sp, ProbeNative, ProbeState},
        Drawable,
    };

    fn any_circle(max_d: u32) -> Circle {
        let d: u32 = kani::any();
        kani::assume(d <= max_d);
        Circle::new(any_point(1024), d)
    }

    /// Circle::offset keeps the centre and changes the diameter by 2n: the stroke area is the circle
    /// grown on every side by the outside part, the fill area the circle shrunk by the inside part.
    //@harness prop=C06,C02,C08 kind=lemma tier=quick class=P fns=src/primitives/circle/mod.rs::Circle::offset;src/primitives/circle/mod.rs::Circle::with_center;src/primitives/circle/mod.rs::Circle::center
    #[kani::proof]
    fn c06_circle_areas() {
        let c = any_circle(4096);
        kani::assume(c.diameter >= 1);
        let style = any_style(4096);
        let styled = c.into_styled(style);
        let (fa, sa) = (styled.fill_area(), styled.stroke_area());
        let (i, o) = (style.inside_stroke_width() as i64, style.outside_stroke_width() as i64);
        let (bb, fb, sb) = (c.bounding_box(), fa.bounding_box(), sa.bounding_box());
        assert!(sa.diameter as i64 == c.diameter as i64 + 2 * o);
        assert!(sp::left(&sb) == sp::left(&bb) - o && sp::right(&sb) == sp::right(&bb) + o && sp::top(&sb) == sp::top(&bb) - o && sp::bottom(&sb) == sp::bottom(&bb) + o);
        if c.diameter as i64 > 2 * i {
            assert!(sp::left(&fb) == sp::left(&bb) + i && sp::right(&fb) == sp::right(&bb) - i && sp::top(&fb) == sp::top(&bb) + i && sp::bottom(&fb) == sp::bottom(&bb) - i);
        } else {
            assert!(fa.diameter == 0);
        }
        if style.stroke_alignment == StrokeAlignment::Inside {
            assert!(sa == c);
        }
        if style.stroke_alignment == StrokeAlignment::Outside {
            assert!(fa == c);
        }
        assert!(styled.bounding_box() == sb);
        kani::cover!(fa.diameter == 0);
        kani::cover!(fa.diameter > 0 && i > 0 && o > 0);
    }

    /// From the constructor (class P): the whole draw() of a tiny circle on a native probe, one harness
    /// per match arm of draw_styled (colour presence concrete, so only that arm is reachable): the pixel
    /// map is the statement's colour function of fill_area()/stroke_area(). Decides which scanline
    /// generator and which area each arm uses.
    fn draw_probe_tiny(fill: bool, stroke: bool) {
        let d: u32 = kani::any();
        kani::assume(d <= 3);
        let c = Circle::new(Point::new(0, 0), d);
        let mut style = any_style(2);
        style.fill_color = if fill { Some(Gray8::new(50)) } else { None };
        style.stroke_color = if stroke { Some(Gray8::new(200)) } else { None };
        if stroke {
            kani::assume(style.stroke_width >= 1);
        }
        let styled = c.into_styled(style);
        let (fa, sa) = (styled.fill_area(), styled.stroke_area());
        kani::assume(sa.diameter <= 4);
        let q = any_point(16);
        let bb = styled.bounding_box();
        let mut t = ProbeNative::<Gray8>(ProbeState::new(q, Rectangle::new(Point::new(-8, -8), Size::new(16, 16)), bb));
        styled.draw(&mut t).unwrap();
        let expected = if fa.contains(q) { style.fill_color } else if sa.contains(q) && style.stroke_width > 0 { style.stroke_color } else { None };
        assert!(t.0.last == expected);
        assert!(!t.0.escaped);
        kani::cover!(expected.is_some());
        kani::cover!(sa.contains(q) && !fa.contains(q) && style.stroke_width > 0);
    }
    //@harness prop=C06,C02 kind=bounded tier=quick class=P bound="fill only (stroke colour absent, stroke width 0..=2, three alignments); diameter <= 3, position (0,0)" timeout=900 unwindset="try_fold=6;draw_styled=6" fns=src/primitives/circle/styled.rs::Circle::draw_styled
    #[kani::proof]
    #[kani::unwind(7)]
    fn c06_circle_draw_probe_fill_only() {
        draw_probe_tiny(true, false);
    }
    //@harness prop=C06,C02 kind=bounded tier=quick class=P bound="stroke only; diameter <= 3, stroke 1..=2, position (0,0)" timeout=1200 unwindset="try_fold=6;draw_styled=6"
    #[kani::proof]
    #[kani::unwind(7)]
    fn c06_circle_draw_probe_stroke_only() {
        draw_probe_tiny(false, true);
    }
    //@harness prop=C06,C02 kind=bounded tier=quick class=P bound="stroke and fill; diameter <= 3, stroke 1..=2, position (0,0)" timeout=1200 unwindset="try_fold=6;draw_styled=6"
    #[kani::proof]
    #[kani::unwind(7)]
    fn c06_circle_draw_probe_stroke_and_fill() {
        draw_probe_tiny(true, true);
    }

    /// Styled row contract of the real StyledScanlines::next from an arbitrary row: the stroke range is
    /// exactly the columns stroke_area.contains() accepts, the fill range exactly those fill_area accepts.
    //@harness prop=C06 kind=bounded tier=quick class=P bound="stroke area diameter <= 7 (two row search loops), position +-1024, stroke width <= 4" fns=src/primitives/circle/styled.rs::StyledScanlines::new;src/primitives/circle/styled.rs::StyledScanlines::next
    #[kani::proof]
    #[kani::unwind(10)]
    fn c06_circle_styled_row() {
        let c = any_circle(7);
        let style = any_style(4);
        let styled = c.into_styled(style);
        let (fa, sa) = (styled.fill_area(), styled.stroke_area());
        kani::assume(sa.diameter <= 7);
        let mut s = StyledScanlines::new(&sa, &fa);
        let bb = sa.bounding_box();
        let y: i32 = kani::any();
        kani::assume(sp::top(&bb) <= y as i64 && (y as i64) < sp::bottom(&bb));
        s.scanlines.verif_set_row(y);
        let r = s.next();
        let qx: i32 = kani::any();
        kani::assume((qx as i64 - c.top_left.x as i64).abs() <= 24);
        let q = Point::new(qx, y);
        match r {
            Some(sl) => {
                let stroke = sl.stroke_left().x.contains(&qx) || sl.stroke_right().x.contains(&qx);
                let fill = sl.fill().x.contains(&qx);
                assert!(sl.fill().y == y && sl.stroke_left().y == y && sl.stroke_right().y == y);
                assert!(fill == fa.contains(q));
                assert!((stroke || fill) == sa.contains(q));
                assert!(!(stroke && fill));
            }
            None => assert!(!sa.contains(q)),
        }
        kani::cover!(fa.contains(q));
        kani::cover!(sa.contains(q) && !fa.contains(q) && fa.diameter > 0);
    }
}
//@end
// accessor for the private row range of circle::points::Scanlines (added lines only)
//@append src/primitives/circle/points.rs
#[cfg(kani)]
impl Scanlines {
    pub(in crate::primitives) fn verif_set_row(&mut self, y: i32) {
        self.rows.start = y;
    }
}
//@end

// ------------------------------------------------------------------ Ellipse (whole draw, tiny, per match arm)
//@append src/primitives/ellipse/styled.rs
#[cfg(kani)]
#[allow(missing_docs, trivial_casts, trivial_numeric_casts, unused_qualifications, dead_code, unused)]
mod verif_c06e {
    use super::*;
    use crate::{
        geometry::Size,
        pixelcolor::Gray8,
        primitives::{primitive_style::verif_c06s::any_style, ContainsPoint, Primitive},
        verif_probe::{any_point, sp, ProbeNative, ProbeState},
        Drawable,
    };

    fn draw_probe_tiny(fill: bool, stroke: bool) {
        draw_probe_sized(fill, stroke, 3)
    }
    fn draw_probe_sized(fill: bool, stroke: bool, max: u32) {
        let (w, h): (u32, u32) = (kani::any(), kani::any());
        kani::assume(w <= max && h <= max);
        let e = Ellipse::new(Point::new(0, 0), Size::new(w, h));
        let mut style = any_style(1);
        style.fill_color = if fill { Some(Gray8::new(50)) } else { None };
        style.stroke_color = if stroke { Some(Gray8::new(200)) } else { None };
        if stroke {
            kani::assume(style.stroke_width >= 1);
        }
        let styled = e.into_styled(style);
        let (fa, sa) = (styled.fill_area(), styled.stroke_area());
        kani::assume(sa.size.width <= 4 && sa.size.height <= 4);
        let q = any_point(16);
        let bb = styled.bounding_box();
        let mut t = ProbeNative::<Gray8>(ProbeState::new(q, Rectangle::new(Point::new(-8, -8), Size::new(16, 16)), bb));
        styled.draw(&mut t).unwrap();
        let expected = if fa.contains(q) { style.fill_color } else if sa.contains(q) && style.stroke_width > 0 { style.stroke_color } else { None };
        assert!(t.0.last == expected);
        assert!(!t.0.escaped);
        kani::cover!(expected.is_some());
    }
    /// Quick variants of the fill-only and stroke-only arms of Ellipse::draw_styled (the stroke-and-fill arm did not
    /// finish in 15 min even at this size and stays in the thorough tier) on 0..=2 x 0..=2 ellipses (EllipseContains::contains
    /// used through its contract): enough to decide which scanline generator over which area each arm uses
    /// (an inside stroke of width 1 empties the fill area of a 2x2 ellipse).
    //@harness prop=C06 kind=bounded tier=quick class=P bound="ellipse fill only; size <= 2x2, stroke width 0..=1, three alignments, position (0,0)" timeout=900 kani="--no-assertion-reach-checks" unwindset="try_fold=5;draw_styled=5;ellipse::points::Scanlines as core::iter::Iterator>::next=5" fns=src/primitives/ellipse/styled.rs::Ellipse::draw_styled
    #[kani::proof]
    #[kani::unwind(6)]
    #[kani::stub(crate::primitives::ellipse::EllipseContains::contains, crate::primitives::ellipse::verif_ell::contains_by_contract)]
    fn c06_ellipse_draw_arm_fill_only() {
        draw_probe_sized(true, false, 2);
    }
    //@harness prop=C06 kind=bounded tier=quick class=P bound="ellipse stroke only; size <= 2x2, stroke width 1, three alignments, position (0,0)" timeout=900 kani="--no-assertion-reach-checks" unwindset="try_fold=5;draw_styled=5;ellipse::points::Scanlines as core::iter::Iterator>::next=5"
    #[kani::proof]
    #[kani::unwind(6)]
    #[kani::stub(crate::primitives::ellipse::EllipseContains::contains, crate::primitives::ellipse::verif_ell::contains_by_contract)]
    fn c06_ellipse_draw_arm_stroke_only() {
        draw_probe_sized(false, true, 2);
    }
    /// Ellipse::draw_styled, fill-only arm (which scanline generator over which area)
    //@harness prop=C06,C02 kind=bounded tier=thorough class=P bound="ellipse fill only; size <= 3x3, stroke width 0..=1, position (0,0)" timeout=3000 unwindset="try_fold=6;draw_styled=6;ellipse::points::Scanlines as core::iter::Iterator>::next=6" fns=src/primitives/ellipse/styled.rs::Ellipse::draw_styled
    #[kani::proof]
    #[kani::unwind(7)]
    fn c06_ellipse_draw_probe_fill_only() {
        draw_probe_tiny(true, false);
    }
    //@harness prop=C06,C02 kind=bounded tier=thorough class=P bound="ellipse stroke and fill; size <= 3x3, stroke width 1, position (0,0)" timeout=3000 unwindset="try_fold=6;draw_styled=6;ellipse::points::Scanlines as core::iter::Iterator>::next=6"
    #[kani::proof]
    #[kani::unwind(7)]
    fn c06_ellipse_draw_probe_stroke_and_fill() {
        draw_probe_tiny(true, true);
    }
}
//@end

// ------------------------------------------------------------------ RoundedRectangle (styled row)
//@append src/primitives/rounded_rectangle/points.rs
#[cfg(kani)]
impl Scanlines {
    pub(in crate::primitives) fn verif_set_row(&mut self, y: i32) {
        self.rounded_rectangle.rows.start = y;
    }
}
//@end
//@append src/primitives/rounded_rectangle/styled.rs
#[cfg(kani)]
#[allow(missing_docs, trivial_casts, trivial_numeric_casts, unused_qualifications, dead_code, unused)]
mod verif_c06rr {
    use super::*;
    use crate::{
        geometry::{Dimensions, Size},
        pixelcolor::Gray8,
        primitives::{ContainsPoint, Primitive, StrokeAlignment, PrimitiveStyleBuilder},
        verif_probe::sp,
    };

    /// Styled row contract of the real rounded_rectangle StyledScanlines::next from an arbitrary row: the
    /// fill range is exactly the columns fill_area.contains() accepts (none, if the fill area has no pixel
    /// in that row), stroke_left/stroke_right exactly those of stroke_area minus fill_area.
    fn styled_row(rr: RoundedRectangle, sw: u32, al: StrokeAlignment, reach: i64) {
        let style = PrimitiveStyleBuilder::<Gray8>::new().stroke_width(sw).stroke_alignment(al).build();
        let (fa, sa) = (style.fill_area(&rr), style.stroke_area(&rr));
        let mut s = StyledScanlines::new(&sa, &fa);
        let bb = sa.bounding_box();
        let y: i32 = kani::any();
        kani::assume(sp::top(&bb) <= y as i64 && (y as i64) < sp::bottom(&bb));
        s.scanlines.verif_set_row(y);
        let r = s.next();
        let qx: i32 = kani::any();
        kani::assume((qx as i64 - rr.rectangle.top_left.x as i64).abs() <= reach);
        let q = Point::new(qx, y);
        match r {
            Some(sl) => {
                let stroke = sl.stroke_left().x.contains(&qx) || sl.stroke_right().x.contains(&qx);
                let fill = sl.fill().x.contains(&qx);
                assert!(sl.fill().y == y && sl.stroke_left().y == y && sl.stroke_right().y == y);
                assert!(fill == fa.contains(q));
                assert!((stroke || fill) == sa.contains(q));
                assert!(!(stroke && fill));
            }
            None => assert!(!sa.contains(q)),
        }
        kani::cover!(fa.contains(q));
        kani::cover!(sa.contains(q) && !fa.contains(q));
        kani::cover!(sa.contains(q) && fa.rectangle.size.width == 0 && fa.rectangle.size.height > 0);
    }

    /// Square corners, every stroke width up to 3, Inside alignment: includes fill areas that collapse in
    /// width only.
    //@harness prop=C06 kind=bounded tier=quick class=P bound="rounded rectangle w <= 2, h <= 7 at (0,0) with zero corner radii, Inside stroke width <= 3; any row, probe column within +-4" timeout=900 kani="--no-assertion-reach-checks" fns=src/primitives/rounded_rectangle/styled.rs::StyledScanlines::new;src/primitives/rounded_rectangle/styled.rs::StyledScanlines::next
    #[kani::proof]
    #[kani::unwind(5)]
    #[kani::stub(crate::primitives::ellipse::EllipseContains::contains, crate::primitives::ellipse::verif_ell::contains_by_contract)]
    #[kani::stub(crate::primitives::rounded_rectangle::CornerRadii::confine, crate::primitives::rounded_rectangle::corner_radii::verif_cr::confine_by_contract)]
    fn c06_rounded_rect_styled_row_square() {
        let bits = |m: u8| (kani::any::<u8>() & m) as u32;
        let w = bits(3);
        kani::assume(w <= 2);
        let rr = RoundedRectangle::with_equal_corners(Rectangle::new(Point::new(0, 0), Size::new(w, bits(7))), Size::zero());
        styled_row(rr, bits(3), StrokeAlignment::Inside, 4);
    }

    /// Round corners that fit, narrow shapes with tall corner ellipses included.
    //@harness prop=C06 kind=bounded tier=thorough class=P bound="rounded rectangle w <= 3, h <= 7 at (0,0), equal corner radii rx <= 1, ry <= 3 that fit, stroke width <= 1, three alignments; any row, probe column within +-8" timeout=900 kani="--no-assertion-reach-checks" fns=src/primitives/rounded_rectangle/styled.rs::StyledScanlines::new;src/primitives/rounded_rectangle/styled.rs::StyledScanlines::next
    #[kani::proof]
    #[kani::unwind(8)]
    #[kani::stub(crate::primitives::ellipse::EllipseContains::contains, crate::primitives::ellipse::verif_ell::contains_by_contract)]
    #[kani::stub(crate::primitives::rounded_rectangle::CornerRadii::confine, crate::primitives::rounded_rectangle::corner_radii::verif_cr::confine_by_contract)]
    fn c06_rounded_rect_styled_row_round() {
        let bits = |m: u8| (kani::any::<u8>() & m) as u32;
        let (w, h, rx, ry) = (bits(3), bits(7), bits(1), bits(3));
        kani::assume(2 * rx <= w && 2 * ry <= h);
        let rr = RoundedRectangle::with_equal_corners(Rectangle::new(Point::new(0, 0), Size::new(w, h)), Size::new(rx, ry));
        let al = match kani::any::<u8>() & 3 { 0 => StrokeAlignment::Inside, 1 => StrokeAlignment::Center, _ => StrokeAlignment::Outside };
        styled_row(rr, bits(1), al, 8);
    }
}
//@end
