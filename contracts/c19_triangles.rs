//! Unit `c19_triangles`: triangles cover their interior and polylines are the union of their segments
//! (property C19).
//@unit c19_triangles
//@crate main
//@needs arb probe

//@append src/primitives/triangle/mod.rs
#[cfg(kani)]
#[allow(missing_docs, trivial_casts, trivial_numeric_casts, unused_qualifications, dead_code, unused)]
mod verif_c19t {
    use super::*;
    use crate::verif_probe::{any_point, sp};

    fn before(a: Point, b: Point) -> bool {
        a.y < b.y || (a.y == b.y && a.x < b.x)
    }

    /// sorted_yx is a permutation of the vertices in (y, x) order and does not depend on the order in
    /// which the vertices were given: all six orders sort to the same triangle. Hence the three edge
    /// lines (p1,p2), (p1,p3), (p2,p3) are the same Line values for every vertex order and for the two
    /// triangles sharing an edge, so a shared edge is rasterised to the same pixels (C17: Bresenham is
    /// a function of the Line).
    //@harness prop=C19,C08 kind=lemma tier=quick class=P fns=src/primitives/triangle/mod.rs::Triangle::sorted_yx;src/primitives/triangle/mod.rs::sort_two_yx
    #[kani::proof]
    fn c19_sorted_yx_is_order_independent() {
        let (a, b, c) = (any_point(4096), any_point(4096), any_point(4096));
        let s = Triangle::new(a, b, c).sorted_yx();
        let [p1, p2, p3] = s.vertices;
        // sorted
        assert!(!before(p2, p1) && !before(p3, p2));
        // permutation
        let is = |p: Point, q: Point| p == q;
        assert!((is(p1, a) && is(p2, b) && is(p3, c)) || (is(p1, a) && is(p2, c) && is(p3, b)) || (is(p1, b) && is(p2, a) && is(p3, c))
            || (is(p1, b) && is(p2, c) && is(p3, a)) || (is(p1, c) && is(p2, a) && is(p3, b)) || (is(p1, c) && is(p2, b) && is(p3, a)));
        // order independence
        assert!(Triangle::new(a, c, b).sorted_yx() == s && Triangle::new(b, a, c).sorted_yx() == s && Triangle::new(b, c, a).sorted_yx() == s
            && Triangle::new(c, a, b).sorted_yx() == s && Triangle::new(c, b, a).sorted_yx() == s);
        // a shared edge: the triangle (a, b, d) sorts a and b into the same relative order
        let d = any_point(4096);
        let s2 = Triangle::new(b, d, a).sorted_yx();
        let pos = |t: &Triangle, p: Point| if t.vertices[0] == p { 0 } else if t.vertices[1] == p { 1 } else { 2 };
        if a != b && a != c && b != c && a != d && b != d {
            assert!((pos(&s, a) < pos(&s, b)) == (pos(&s2, a) < pos(&s2, b)));
        }
        kani::cover!(a != b && b != c && a.y == b.y);
    }

    fn cross(a: Point, b: Point, p: Point) -> i64 {
        (b.x as i64 - a.x as i64) * (p.y as i64 - a.y as i64) - (b.y as i64 - a.y as i64) * (p.x as i64 - a.x as i64)
    }
    /// p lies in the closed mathematical triangle (any orientation)
    fn inside_closed(a: Point, b: Point, c: Point, p: Point) -> bool {
        let (d1, d2, d3) = (cross(a, b, p), cross(b, c, p), cross(c, a, p));
        !((d1 < 0 || d2 < 0 || d3 < 0) && (d1 > 0 || d2 > 0 || d3 > 0))
    }
    /// necessary condition for p to be a pixel of the Bresenham line between a and b (either direction):
    /// inside the segment's box and within half a pixel (measured along the minor axis) of the ideal line
    /// (C17: c17_bresenham_step establishes exactly this bound for every emitted point)
    fn near_edge(a: Point, b: Point, p: Point) -> bool {
        let major = (b.x as i64 - a.x as i64).abs().max((b.y as i64 - a.y as i64).abs());
        p.x >= a.x.min(b.x) && p.x <= a.x.max(b.x) && p.y >= a.y.min(b.y) && p.y <= a.y.max(b.y) && 2 * cross(a, b, p).abs() <= major
    }

    /// Triangle::contains (non-zero area, bounded because of the Bresenham edge fallback): every point of
    /// the closed mathematical triangle is accepted; every accepted point is in the closed triangle or
    /// within half a pixel of one of the three edges (the rasterised outline); nothing outside the
    /// bounding box is accepted. In particular points on the *extension* of an edge are rejected.
    fn check_contains(mask: u8) {
        let nib = || (kani::any::<u8>() & mask) as i32;
        let (a, b, c) = (Point::new(nib(), nib()), Point::new(nib(), nib()), Point::new(nib(), nib()));
        kani::assume(cross(a, b, c) != 0);
        let p = Point::new((kani::any::<u8>() & (2 * mask + 1)) as i32 - 1, (kani::any::<u8>() & (2 * mask + 1)) as i32 - 1);
        kani::assume(p.x <= mask as i32 + 1 && p.y <= mask as i32 + 1);
        let t = Triangle::new(a, b, c);
        let r = t.contains(p);
        let ins = inside_closed(a, b, c, p);
        if ins {
            assert!(r);
        }
        if r {
            assert!(ins || near_edge(a, b, p) || near_edge(b, c, p) || near_edge(c, a, p));
            assert!(t.bounding_box().contains(p));
        }
        kani::cover!(r && !ins);
        kani::cover!(r && ins && cross(a, b, c) < 0);
        kani::cover!(!r && t.bounding_box().contains(p) && cross(a, b, p) == 0);
    }

    //@harness prop=C05,C19 kind=bounded tier=quick class=P bound="vertices in 0..=3 x 0..=3 (edge fallback loops), probe point in -1..=4" timeout=900 kani="--no-assertion-reach-checks" fns=src/primitives/triangle/mod.rs::Triangle::contains
    #[kani::proof]
    #[kani::unwind(6)]
    fn c05_triangle_contains() {
        check_contains(3);
    }

    //@harness prop=C05,C19 kind=bounded tier=thorough class=P bound="vertices in 0..=7 x 0..=7 (edge fallback loops), probe point in -1..=8" timeout=3000 kani="--no-assertion-reach-checks" fns=src/primitives/triangle/mod.rs::Triangle::contains
    #[kani::proof]
    #[kani::unwind(10)]
    fn c05_triangle_contains_thorough() {
        check_contains(7);
    }

    /// area_doubled / sorted_clockwise: the sign of the doubled area flips when two vertices are swapped
    /// and sorted_clockwise() has a non-negative doubled area (display scale, no overflow)
    //@harness prop=C19 kind=lemma tier=thorough class=P bound="vertices within +-256" timeout=3000 fns=src/primitives/triangle/mod.rs::Triangle::area_doubled;src/primitives/triangle/mod.rs::Triangle::sorted_clockwise
    #[kani::proof]
    #[kani::solver(z3)]
    fn c19_area_and_clockwise() {
        let (a, b, c) = (any_point(256), any_point(256), any_point(256));
        let t = Triangle::new(a, b, c);
        let ad = t.area_doubled() as i64;
        let exact = (b.x as i64 - a.x as i64) * (c.y as i64 - a.y as i64) - (c.x as i64 - a.x as i64) * (b.y as i64 - a.y as i64);
        assert!(ad == exact);
        assert!(Triangle::new(b, a, c).area_doubled() as i64 == -exact);
        assert!(t.sorted_clockwise().area_doubled() >= 0);
        kani::cover!(exact < 0);
    }
}
//@end

//@append src/primitives/common/scanline.rs
#[cfg(kani)]
#[allow(missing_docs, trivial_casts, trivial_numeric_casts, unused_qualifications, dead_code, unused)]
mod verif_c19s {
    use super::*;
    use crate::verif_probe::sp;

    fn any_scanline(y: i32) -> Scanline {
        let (a, b): (i32, i32) = (kani::any(), kani::any());
        kani::assume(-8192 <= a && a <= 8192 && -8192 <= b && b <= 8192);
        Scanline::new(y, a..b)
    }
    fn has(s: &Scanline, x: i32) -> bool {
        s.x.start <= x && x < s.x.end
    }

    /// Scanline helpers as sets of columns: extend adds x and everything between; try_extend unions two
    /// touching or overlapping runs (and only those); to_rectangle / try_take keep the set.
    //@harness prop=C19 kind=contract tier=quick class=I fns=src/primitives/common/scanline.rs::Scanline::extend;src/primitives/common/scanline.rs::Scanline::try_extend;src/primitives/common/scanline.rs::Scanline::touches;src/primitives/common/scanline.rs::Scanline::to_rectangle;src/primitives/common/scanline.rs::Scanline::try_take
    #[kani::proof]
    fn c19_scanline_helpers() {
        let y: i32 = kani::any();
        kani::assume(-8192 <= y && y <= 8192);
        let s = any_scanline(y);
        let q: i32 = kani::any();
        kani::assume(-8192 <= q && q <= 8192);
        // extend
        let x: i32 = kani::any();
        kani::assume(-8192 <= x && x <= 8192);
        let mut e = s.clone();
        e.extend(x);
        let lo = if s.is_empty() { x } else { s.x.start.min(x) };
        let hi = if s.is_empty() { x } else { (s.x.end - 1).max(x) };
        assert!(has(&e, q) == (lo <= q && q <= hi));
        // try_extend
        let o = any_scanline(y);
        let mut u = s.clone();
        let merged = u.try_extend(&o);
        let touching = !s.is_empty() && !o.is_empty() && s.x.start <= o.x.end && o.x.start <= s.x.end;
        assert!(merged == touching);
        if merged {
            assert!(has(&u, q) == (has(&s, q) || has(&o, q)));
        } else {
            assert!(u == s);
        }
        // to_rectangle / try_take
        let r = s.to_rectangle();
        assert!(sp::contains(&r, Point::new(q, y)) == has(&s, q));
        let mut t = s.clone();
        let taken = t.try_take();
        assert!(t.is_empty() && taken.is_some() == !s.is_empty());
        if let Some(k) = taken {
            assert!(k == s);
        }
        kani::cover!(merged && s.x.end == o.x.start);
        kani::cover!(!merged && !s.is_empty() && !o.is_empty());
    }
}
//@end

//@append src/primitives/polyline/points.rs
#[cfg(kani)]
#[allow(missing_docs, trivial_casts, trivial_numeric_casts, unused_qualifications, dead_code, unused)]
mod verif_c19p {
    use super::*;
    use crate::verif_probe::any_point;

    /// Polyline::points(): constructor starts with the first segment line; when a segment is exhausted
    /// the next segment starts and its first point (the shared joint) is skipped; fewer than two
    /// vertices yield nothing. Step contract over the iterator state (segment iterator + remaining
    /// vertices), vertices symbolic.
    //@harness prop=C19 kind=step tier=quick class=I bound="3 remaining vertices; next segment of length <= 2" timeout=900 fns=src/primitives/polyline/points.rs::Points::new;src/primitives/polyline/points.rs::Points::next
    #[kani::proof]
    #[kani::unwind(5)]
    fn c19_polyline_points_step() {
        let v0 = any_point(1024);
        let s1 = any_point(2);
        let zero_len = s1.x == 0 && s1.y == 0;
        let v = [v0, v0 + s1, v0 + s1 + any_point(2)];
        let tr = any_point(1024);
        // state: current segment exhausted, two more vertices follow v[0]
        let mut p = Points { vertices: &v, translate: tr, segment_iter: line::Points::empty() };
        let r = p.next();
        // the next segment is v[0] -> v[1] (translated); its first point is the joint and is skipped
        let mut seg = Line::new(v[0] + tr, v[1] + tr).points();
        let first = seg.next();
        assert!(first == Some(v[0] + tr));
        if !zero_len {
            assert!(r == seg.next());
            assert!(p.vertices.len() == 2 && p.segment_iter == seg && p.translate == tr);
        } else {
            // repeated vertex: the zero length segment contributes nothing new, the segment after it
            // follows, again without its first point (the same joint)
            let mut seg2 = Line::new(v[1] + tr, v[2] + tr).points();
            assert!(seg2.next() == Some(v[0] + tr));
            assert!(r == seg2.next());
            assert!(p.vertices.len() == 1 && p.segment_iter == seg2 && p.translate == tr);
        }
        // while the segment has points they are passed through unchanged
        let mut p2 = Points { vertices: &v, translate: tr, segment_iter: Line::new(v[0], v[1]).points() };
        assert!(p2.next() == Some(v[0]) && p2.vertices.len() == 3);
        // constructor
        let pl = Polyline { translate: tr, vertices: &v };
        let n = Points::new(&pl);
        assert!(n.vertices.len() == 2 && n.translate == tr && n.segment_iter == Line::new(v[0] + tr, v[1] + tr).points());
        assert!(Points::new(&Polyline { translate: tr, vertices: &v[..1] }).next().is_none());
        assert!(Points::new(&Polyline { translate: tr, vertices: &v[..0] }).next().is_none());
        kani::cover!(r.is_some());
        kani::cover!(r.is_none());
    }
}
//@end
