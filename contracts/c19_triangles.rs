//! Unit `c19_triangles`: triangles cover their interior and polylines are the union of their segments
//! (property C19).
//@unit c19_triangles
//@crate main
//@needs arb probe

//@append src/primitives/triangle/mod.rs
#[cfg(kani)]
#[allow(missing_docs, trivial_casts, trivial_numeric_casts, unused_qualifications, dead_code, unused)]
mod verif_c19t {
    use super::*;
    use crate::verif_probe::{any_point, sp};

    fn before(a: Point, b: Point) -> bool {
        a.y < b.y || (a.y == b.y && a.x < b.x)
    }

    /// sorted_yx is a permutation of the vertices in (y, x) order and does not depend on the order in
    /// which the vertices were given: all six orders sort to the same triangle. Hence the three edge
    /// lines (p1,p2), (p1,p3), (p2,p3) are the same Line values for every vertex order and for the two
    /// triangles sharing an edge, so a shared edge is rasterised to the same pixels (C17: Bresenham is
    /// a function of the Line).
    //@harness prop=C19,C08 kind=lemma tier=quick class=P fns=src/primitives/triangle/mod.rs::Triangle::sorted_yx;src/primitives/triangle/mod.rs::sort_two_yx
    #[kani::proof]
    fn c19_sorted_yx_is_order_independent() {
        let (a, b, c) = (any_point(4096), any_point(4096), any_point(4096));
        let s = Triangle::new(a, b, c).sorted_yx();
        let [p1, p2, p3] = s.vertices;
        // sorted
        assert!(!before(p2, p1) && !before(p3, p2));
        // permutation
        let is = |p: Point, q: Point| p == q;
        assert!((is(p1, a) && is(p2, b) && is(p3, c)) || (is(p1, a) && is(p2, c) && is(p3, b)) || (is(p1, b) && is(p2, a) && is(p3, c))
            || (is(p1, b) && is(p2, c) && is(p3, a)) || (is(p1, c) && is(p2, a) && is(p3, b)) || (is(p1, c) && is(p2, b) && is(p3, a)));
        // order independence
        assert!(Triangle::new(a, c, b).sorted_yx() == s && Triangle::new(b, a, c).sorted_yx() == s && Triangle::new(b, c, a).sorted_yx() == s
            && Triangle::new(c, a, b).sorted_yx() == s && Triangle::new(c, b, a).sorted_yx() == s);
        // a shared edge: the triangle (a, b, d) sorts a and b into the same relative order
        let d = any_point(4096);
        let s2 = Triangle::new(b, d, a).sorted_yx();
        let pos = |t: &Triangle, p: Point| if t.vertices[0] == p { 0 } else if t.vertices[1] == p { 1 } else { 2 };
        if a != b && a != c && b != c && a != d && b != d {
            assert!((pos(&s, a) < pos(&s, b)) == (pos(&s2, a) < pos(&s2, b)));
        }
        kani::cover!(a != b && b != c && a.y == b.y);
    }

    fn cross(a: Point, b: Point, p: Point) -> i64 {
        (b.x as i64 - a.x as i64) * (p.y as i64 - a.y as i64) - (b.y as i64 - a.y as i64) * (p.x as i64 - a.x as i64)
    }
    /// p lies in the closed mathematical triangle (any orientation)
    fn inside_closed(a: Point, b: Point, c: Point, p: Point) -> bool {
        let (d1, d2, d3) = (cross(a, b, p), cross(b, c, p), cross(c, a, p));
        !((d1 < 0 || d2 < 0 || d3 < 0) && (d1 > 0 || d2 > 0 || d3 > 0))
    }
    /// necessary condition for p to be a pixel of the Bresenham line between a and b (either direction):
    /// inside the segment's box and within half a pixel (measured along the minor axis) of the ideal line
    /// (C17: c17_bresenham_step establishes exactly this bound for every emitted point)
    fn near_edge(a: Point, b: Point, p: Point) -> bool {
        let major = (b.x as i64 - a.x as i64).abs().max((b.y as i64 - a.y as i64).abs());
        p.x >= a.x.min(b.x) && p.x <= a.x.max(b.x) && p.y >= a.y.min(b.y) && p.y <= a.y.max(b.y) && 2 * cross(a, b, p).abs() <= major
    }

    /// Triangle::contains (non-zero area, bounded because of the Bresenham edge fallback): every point of
    /// the closed mathematical triangle is accepted; every accepted point is in the closed triangle or
    /// within half a pixel of one of the three edges (the rasterised outline); nothing outside the
    /// bounding box is accepted. In particular points on the *extension* of an edge are rejected.
    fn check_contains(mask: u8) {
        let nib = || (kani::any::<u8>() & mask) as i32;
        let (a, b, c) = (Point::new(nib(), nib()), Point::new(nib(), nib()), Point::new(nib(), nib()));
        kani::assume(cross(a, b, c) != 0);
        let p = Point::new((kani::any::<u8>() & (2 * mask + 1)) as i32 - 1, (kani::any::<u8>() & (2 * mask + 1)) as i32 - 1);
        kani::assume(p.x <= mask as i32 + 1 && p.y <= mask as i32 + 1);
        let t = Triangle::new(a, b, c);
        let r = t.contains(p);
        let ins = inside_closed(a, b, c, p);
        if ins {
            assert!(r);
        }
        if r {
            assert!(ins || near_edge(a, b, p) || near_edge(b, c, p) || near_edge(c, a, p));
            assert!(t.bounding_box().contains(p));
        }
        kani::cover!(r && !ins);
        kani::cover!(r && ins && cross(a, b, c) < 0);
        kani::cover!(!r && t.bounding_box().contains(p) && cross(a, b, p) == 0);
    }

    //@harness prop=C05,C19 kind=bounded tier=quick class=P bound="vertices in 0..=3 x 0..=3 (edge fallback loops), probe point in -1..=4" timeout=900 kani="--no-assertion-reach-checks" fns=src/primitives/triangle/mod.rs::Triangle::contains
    #[kani::proof]
    #[kani::unwind(6)]
    fn c05_triangle_contains() {
        check_contains(3);
    }

    //@harness prop=C05,C19 kind=bounded tier=thorough class=P bound="vertices in 0..=7 x 0..=7 (edge fallback loops), probe point in -1..=8" timeout=3000 kani="--no-assertion-reach-checks" fns=src/primitives/triangle/mod.rs::Triangle::contains
    #[kani::proof]
    #[kani::unwind(10)]
    fn c05_triangle_contains_thorough() {
        check_contains(7);
    }

    /// The row a filled triangle paints / points() yields (Triangle::scanline_intersection, used by
    /// ScanlineIntersections for fills): it covers every integer point of the closed mathematical
    /// triangle on that row, every covered point is inside the triangle or within half a pixel of an
    /// edge, it is exactly the set of columns contains() accepts on that row (C05), and rows inside
    /// the bounding box are never empty.
    fn check_row(mask: u8) {
        let nib = || (kani::any::<u8>() & mask) as i32;
        let (a, b, c) = (Point::new(nib(), nib()), Point::new(nib(), nib()), Point::new(nib(), nib()));
        kani::assume(cross(a, b, c) != 0);
        let q = Point::new((kani::any::<u8>() & (2 * mask + 1)) as i32 - 1, (kani::any::<u8>() & (2 * mask + 1)) as i32 - 1);
        kani::assume(q.x <= mask as i32 + 1 && q.y <= mask as i32 + 1);
        let t = Triangle::new(a, b, c);
        let row = t.scanline_intersection(q.y);
        let inrow = row.x.start <= q.x && q.x < row.x.end;
        let ins = inside_closed(a, b, c, q);
        if ins {
            assert!(inrow);
        }
        if inrow {
            assert!(row.y == q.y);
            assert!(ins || near_edge(a, b, q) || near_edge(b, c, q) || near_edge(c, a, q));
        }
        assert!(inrow == t.contains(q));
        let bb = t.bounding_box();
        if sp::top(&bb) <= q.y as i64 && (q.y as i64) < sp::bottom(&bb) {
            assert!(row.x.start < row.x.end);
            assert!(sp::left(&bb) <= row.x.start as i64 && row.x.end as i64 <= sp::right(&bb));
        } else {
            assert!(row.x.start >= row.x.end);
        }
        kani::cover!(inrow && !ins);
        kani::cover!(inrow && ins && cross(a, b, c) < 0);
        kani::cover!(!inrow && bb.contains(q));
    }

    //@harness prop=C19,C05 kind=bounded tier=quick class=P bound="vertices in 0..=3 x 0..=3 (Bresenham edge loops), probe point in -1..=4" timeout=900 kani="--no-assertion-reach-checks" fns=src/primitives/triangle/mod.rs::Triangle::scanline_intersection;src/primitives/common/scanline.rs::Scanline::bresenham_intersection;src/primitives/triangle/mod.rs::Triangle::contains
    #[kani::proof]
    #[kani::unwind(6)]
    fn c19_triangle_row() {
        check_row(3);
    }

    //@harness prop=C19,C05 kind=bounded tier=thorough class=P bound="vertices in 0..=7 x 0..=7, probe point in -1..=8" timeout=3000 kani="--no-assertion-reach-checks" fns=src/primitives/triangle/mod.rs::Triangle::scanline_intersection
    #[kani::proof]
    #[kani::unwind(10)]
    fn c19_triangle_row_thorough() {
        check_row(7);
    }

    /// The fill row does not depend on the order in which the vertices are given (the two swaps
    /// generate all six orders), so two triangles sharing an edge paint the same pixels along it.
    //@harness prop=C19 kind=bounded tier=quick class=P bound="vertices in 0..=3 x 0..=3, every row -1..=4" timeout=900 kani="--no-assertion-reach-checks" fns=src/primitives/triangle/mod.rs::Triangle::scanline_intersection
    #[kani::proof]
    #[kani::unwind(6)]
    fn c19_triangle_row_order_independent() {
        let nib = || (kani::any::<u8>() & 3) as i32;
        let (a, b, c) = (Point::new(nib(), nib()), Point::new(nib(), nib()), Point::new(nib(), nib()));
        let y = (kani::any::<u8>() & 7) as i32 - 1;
        kani::assume(y <= 4);
        let r = Triangle::new(a, b, c).scanline_intersection(y);
        let r1 = Triangle::new(b, a, c).scanline_intersection(y);
        let r2 = Triangle::new(a, c, b).scanline_intersection(y);
        assert!(r.is_empty() == r1.is_empty() && r.is_empty() == r2.is_empty());
        if !r.is_empty() {
            assert!(r == r1 && r == r2);
        }
        kani::cover!(!r.is_empty() && cross(a, b, c) != 0);
        kani::cover!(!r.is_empty() && cross(a, b, c) == 0 && a != b);
    }

    /// Without a stroke (width 0) a triangle with non-zero area is never "collapsed", whatever the stroke
    /// alignment: the fill rows are drawn as Fill (assumed by c19_triangle_draw_fill_probe).
    //@harness prop=C19 kind=bounded tier=thorough class=P bound="vertices in 0..=3 x 0..=3" timeout=3000 kani="--no-assertion-reach-checks" fns=src/primitives/triangle/mod.rs::Triangle::is_collapsed
    #[kani::proof]
    #[kani::unwind(5)]
    fn c19_triangle_not_collapsed_without_stroke() {
        let nib = || (kani::any::<u8>() & 3) as i32;
        let (a, b, c) = (Point::new(nib(), nib()), Point::new(nib(), nib()), Point::new(nib(), nib()));
        kani::assume(cross(a, b, c) != 0);
        let off = match kani::any::<u8>() % 3 { 0 => StrokeOffset::None, 1 => StrokeOffset::Left, _ => StrokeOffset::Right };
        let t = Triangle::new(a, b, c).sorted_clockwise();
        assert!(!t.is_collapsed(0, off));
        kani::cover!(off == StrokeOffset::Right);
    }

    /// Stand-in for Scanline::bresenham_intersection as a pure function of the line: an arbitrary (possibly
    /// empty) run per line, merged into the scanline as a hull -- which is what the real function does with the
    /// run of Bresenham pixels on that row (c19_thick_segment_skeleton_row / c19_triangle_row use the real one).
    static mut EDGE_RUNS: [(i32, i32); 8] = [(0, 0); 8];
    fn edge_run(line: &Line) -> (i32, i32) {
        let h = (line.start.x as u32).wrapping_mul(3) ^ (line.start.y as u32).wrapping_mul(5) ^ (line.end.x as u32).wrapping_mul(7) ^ (line.end.y as u32).wrapping_mul(11);
        unsafe { EDGE_RUNS[(h & 7) as usize] }
    }
    fn bresenham_fixed(s: &mut Scanline, line: &Line) {
        let (a, b) = edge_run(line);
        if a < b {
            if s.x.start >= s.x.end {
                s.x = a..b;
            } else {
                s.x = s.x.start.min(a)..s.x.end.max(b);
            }
        }
    }

    /// Every row of a filled triangle is the hull of the row runs of ALL three edges of the (y, x)-sorted
    /// triangle -- for any triangle of any size and any row (a colinear triangle: its long edge only). Decides
    /// that no edge is left out on any row (e.g. on the row of the middle vertex), which the bounded grid of
    /// c19_triangle_row cannot see for shallow edges with long runs. Unbounded; edge runs through the stand-in.
    //@harness prop=C19,C05 kind=contract tier=quick class=P kani="--no-assertion-reach-checks" fns=src/primitives/triangle/mod.rs::Triangle::scanline_intersection
    #[kani::proof]
    #[kani::unwind(9)]
    #[kani::stub(crate::primitives::common::Scanline::bresenham_intersection, bresenham_fixed)]
    fn c19_triangle_row_is_hull_of_all_edges() {
        let mut i = 0;
        while i < 8 {
            let (a, b): (i32, i32) = (kani::any(), kani::any());
            kani::assume(-4096 <= a && a <= b && b <= 4096);
            unsafe { EDGE_RUNS[i] = (a, b); }
            i += 1;
        }
        let t = Triangle::new(any_point(1024), any_point(1024), any_point(1024));
        let y: i32 = kani::any();
        kani::assume(-2048 <= y && y <= 2048);
        let row = t.scanline_intersection(y);
        let [p1, p2, p3] = t.sorted_yx().vertices;
        // the same degeneracy test as the code (the doubled area as computed by Triangle::area_doubled; its exactness
        // is c19_area_and_clockwise): comparing two polynomial forms of the area is out of the SAT solver's reach
        let colinear = t.area_doubled() == 0;
        let runs = if colinear {
            [edge_run(&Line::new(p1, p3)), (0, 0), (0, 0)]
        } else {
            [edge_run(&Line::new(p1, p2)), edge_run(&Line::new(p1, p3)), edge_run(&Line::new(p2, p3))]
        };
        let nonempty = |r: (i32, i32)| r.0 < r.1;
        let q: i32 = kani::any();
        let in_row = row.x.start <= q && q < row.x.end;
        if !(nonempty(runs[0]) || nonempty(runs[1]) || nonempty(runs[2])) {
            assert!(!in_row);
        } else {
            let lo = runs.iter().filter(|r| nonempty(**r)).map(|r| r.0).min().unwrap();
            let hi = runs.iter().filter(|r| nonempty(**r)).map(|r| r.1).max().unwrap();
            assert!(in_row == (lo <= q && q < hi));
            assert!(row.y == y);
        }
        kani::cover!(!colinear && nonempty(runs[0]) && nonempty(runs[1]) && nonempty(runs[2]) && runs[0].1 < runs[1].0 && y == p2.y);
        kani::cover!(colinear && p1 != p3);
    }

    /// area_doubled / sorted_clockwise: the sign of the doubled area flips when two vertices are swapped
    /// and sorted_clockwise() has a non-negative doubled area (display scale, no overflow)
    //@harness prop=C19 kind=lemma tier=thorough class=P bound="vertices within +-256" timeout=3000 fns=src/primitives/triangle/mod.rs::Triangle::area_doubled;src/primitives/triangle/mod.rs::Triangle::sorted_clockwise
    #[kani::proof]
    #[kani::solver(z3)]
    fn c19_area_and_clockwise() {
        let (a, b, c) = (any_point(256), any_point(256), any_point(256));
        let t = Triangle::new(a, b, c);
        let ad = t.area_doubled() as i64;
        let exact = (b.x as i64 - a.x as i64) * (c.y as i64 - a.y as i64) - (c.x as i64 - a.x as i64) * (b.y as i64 - a.y as i64);
        assert!(ad == exact);
        assert!(Triangle::new(b, a, c).area_doubled() as i64 == -exact);
        assert!(t.sorted_clockwise().area_doubled() >= 0);
        kani::cover!(exact < 0);
    }
}
//@end

//@append src/primitives/common/scanline.rs
#[cfg(kani)]
#[allow(missing_docs, trivial_casts, trivial_numeric_casts, unused_qualifications, dead_code, unused)]
mod verif_c19s {
    use super::*;
    use crate::verif_probe::sp;

    fn any_scanline(y: i32) -> Scanline {
        let (a, b): (i32, i32) = (kani::any(), kani::any());
        kani::assume(-8192 <= a && a <= 8192 && -8192 <= b && b <= 8192);
        Scanline::new(y, a..b)
    }
    fn has(s: &Scanline, x: i32) -> bool {
        s.x.start <= x && x < s.x.end
    }

    /// Scanline helpers as sets of columns: extend adds x and everything between; try_extend unions two
    /// touching or overlapping runs (and only those); to_rectangle / try_take keep the set.
    //@harness prop=C19 kind=contract tier=quick class=I fns=src/primitives/common/scanline.rs::Scanline::extend;src/primitives/common/scanline.rs::Scanline::try_extend;src/primitives/common/scanline.rs::Scanline::touches;src/primitives/common/scanline.rs::Scanline::to_rectangle;src/primitives/common/scanline.rs::Scanline::try_take
    #[kani::proof]
    fn c19_scanline_helpers() {
        let y: i32 = kani::any();
        kani::assume(-8192 <= y && y <= 8192);
        let s = any_scanline(y);
        let q: i32 = kani::any();
        kani::assume(-8192 <= q && q <= 8192);
        // extend
        let x: i32 = kani::any();
        kani::assume(-8192 <= x && x <= 8192);
        let mut e = s.clone();
        e.extend(x);
        let lo = if s.is_empty() { x } else { s.x.start.min(x) };
        let hi = if s.is_empty() { x } else { (s.x.end - 1).max(x) };
        assert!(has(&e, q) == (lo <= q && q <= hi));
        // try_extend
        let o = any_scanline(y);
        let mut u = s.clone();
        let merged = u.try_extend(&o);
        let touching = !s.is_empty() && !o.is_empty() && s.x.start <= o.x.end && o.x.start <= s.x.end;
        assert!(merged == touching);
        if merged {
            assert!(has(&u, q) == (has(&s, q) || has(&o, q)));
        } else {
            assert!(u == s);
        }
        // to_rectangle / try_take
        let r = s.to_rectangle();
        assert!(sp::contains(&r, Point::new(q, y)) == has(&s, q));
        let mut t = s.clone();
        let taken = t.try_take();
        assert!(t.is_empty() && taken.is_some() == !s.is_empty());
        if let Some(k) = taken {
            assert!(k == s);
        }
        kani::cover!(merged && s.x.end == o.x.start);
        kani::cover!(!merged && !s.is_empty() && !o.is_empty());
    }
}
//@end

//@append src/primitives/polyline/points.rs
#[cfg(kani)]
#[allow(missing_docs, trivial_casts, trivial_numeric_casts, unused_qualifications, dead_code, unused)]
mod verif_c19p {
    use super::*;
    use crate::verif_probe::any_point;

    /// Polyline::points(): constructor starts with the first segment line; when a segment is exhausted
    /// the next segment starts and its first point (the shared joint) is skipped; fewer than two
    /// vertices yield nothing. Step contract over the iterator state (segment iterator + remaining
    /// vertices), vertices symbolic.
    //@harness prop=C19 kind=step tier=quick class=I bound="3 remaining vertices; next segment of length <= 2" timeout=900 fns=src/primitives/polyline/points.rs::Points::new;src/primitives/polyline/points.rs::Points::next
    #[kani::proof]
    #[kani::unwind(5)]
    fn c19_polyline_points_step() {
        let v0 = any_point(1024);
        let s1 = any_point(2);
        let zero_len = s1.x == 0 && s1.y == 0;
        let v = [v0, v0 + s1, v0 + s1 + any_point(2)];
        let tr = any_point(1024);
        // state: current segment exhausted, two more vertices follow v[0]
        let mut p = Points { vertices: &v, translate: tr, segment_iter: line::Points::empty() };
        let r = p.next();
        // the next segment is v[0] -> v[1] (translated); its first point is the joint and is skipped
        let mut seg = Line::new(v[0] + tr, v[1] + tr).points();
        let first = seg.next();
        assert!(first == Some(v[0] + tr));
        if !zero_len {
            assert!(r == seg.next());
            assert!(p.vertices.len() == 2 && p.segment_iter == seg && p.translate == tr);
        } else {
            // repeated vertex: the zero length segment contributes nothing new, the segment after it
            // follows, again without its first point (the same joint)
            let mut seg2 = Line::new(v[1] + tr, v[2] + tr).points();
            assert!(seg2.next() == Some(v[0] + tr));
            assert!(r == seg2.next());
            assert!(p.vertices.len() == 1 && p.segment_iter == seg2 && p.translate == tr);
        }
        // while the segment has points they are passed through unchanged
        let mut p2 = Points { vertices: &v, translate: tr, segment_iter: Line::new(v[0], v[1]).points() };
        assert!(p2.next() == Some(v[0]) && p2.vertices.len() == 3);
        // constructor
        let pl = Polyline { translate: tr, vertices: &v };
        let n = Points::new(&pl);
        assert!(n.vertices.len() == 2 && n.translate == tr && n.segment_iter == Line::new(v[0] + tr, v[1] + tr).points());
        assert!(Points::new(&Polyline { translate: tr, vertices: &v[..1] }).next().is_none());
        assert!(Points::new(&Polyline { translate: tr, vertices: &v[..0] }).next().is_none());
        kani::cover!(r.is_some());
        kani::cover!(r.is_none());
    }

    /// A one-pixel polyline drawn through the styling API is its points(): pixels() of a width-1 style yields
    /// exactly the points of Polyline::points() -- translation applied once -- in the stroke colour (first
    /// three items compared, so the first joint is crossed), and nothing for a transparent stroke.
    //@harness prop=C19,C07 kind=bounded tier=thorough class=P bound="3 vertices from the origin with unit or zero length segments, first 3 pixels; translation within -8..=7 (did not finish in 500 s)" timeout=3000 fns=src/primitives/polyline/styled.rs::StyledPixelsIterator::new;src/primitives/polyline/styled.rs::StyledPixelsIterator::next
    #[kani::proof]
    #[kani::unwind(5)]
    fn c19_polyline_thin_pixels_are_points() {
        use crate::{pixelcolor::Gray8, primitives::{Primitive, PrimitiveStyle, styled::StyledPixels}, Pixel};
        let v0 = Point::new(0, 0);
        let v = [v0, v0 + any_point(1), v0 + any_point(1) + any_point(1)];
        let tr = Point::new((kani::any::<u8>() & 15) as i32 - 8, (kani::any::<u8>() & 15) as i32 - 8);
        let pl = Polyline { translate: tr, vertices: &v };
        let style = PrimitiveStyle::with_stroke(Gray8::new(7), 1);
        let mut px = pl.pixels(&style);
        let mut pts = pl.points();
        let mut k = 0;
        while k < 3 {
            let (a, b) = (px.next(), pts.next());
            assert!(a == b.map(|p| Pixel(p, Gray8::new(7))));
            k += 1;
        }
        let none = PrimitiveStyle::<Gray8>::new();
        assert!(pl.pixels(&none).next().is_none());
        kani::cover!(tr.x != 0 && tr.y != 0 && v[0] != v[1]);
    }
}
//@end

//@append src/primitives/triangle/scanline_iterator.rs
#[cfg(kani)]
#[allow(missing_docs, trivial_casts, trivial_numeric_casts, unused_qualifications, dead_code, unused)]
pub(in crate::primitives::triangle) mod verif_c19i {
    use super::*;
    use crate::geometry::{Dimensions, Point, Size};
    use crate::verif_probe::{any_point, sp};

    /// Stand-ins for Triangle::scanline_intersection / Triangle::is_collapsed as *pure functions*: an
    /// arbitrary but fixed row for every y (table indexed by y mod 4, the Scanline carries y itself) and an
    /// arbitrary fixed flag. The real scanline_intersection is decided by c19_triangle_row.
    pub static mut ROWS: [(i32, i32); 4] = [(0, 0); 4];
    pub static mut COLLAPSED: bool = false;
    pub fn row_fixed(_t: &Triangle, y: i32) -> Scanline {
        let (a, b) = unsafe { ROWS[(y & 3) as usize] };
        Scanline::new(y, a..b)
    }
    pub fn collapsed_fixed(_t: &Triangle, _w: u32, _o: StrokeOffset) -> bool {
        unsafe { COLLAPSED }
    }
    pub fn init_fixed() {
        let mut i = 0;
        while i < 4 {
            let (a, b): (i32, i32) = (kani::any(), kani::any());
            kani::assume(-4096 <= a && a <= 4096 && -4096 <= b && b <= 4096);
            unsafe { ROWS[i] = (a, b); }
            i += 1;
        }
        unsafe { COLLAPSED = kani::any(); }
    }
    pub fn any_triangle() -> Triangle {
        Triangle::new(any_point(1024), any_point(1024), any_point(1024))
    }

    /// Fill-only triangle (stroke width 0), any triangle and any row range: a fresh row yields exactly one
    /// Fill scanline, namely scanline_intersection(row); the next call moves to the next row of the range
    /// (top to bottom, one at a time) and ends when the range is exhausted. The constructor starts at the
    /// first row of the given box with the clockwise-sorted triangle. Unbounded: scanline_intersection is
    /// used through a pure-function stand-in, so no loop remains.
    //@harness prop=C19,C05 kind=step tier=quick class=I kani="--no-assertion-reach-checks" fns=src/primitives/triangle/scanline_iterator.rs::ScanlineIterator::new;src/primitives/triangle/scanline_iterator.rs::ScanlineIterator::next;src/primitives/triangle/scanline_intersections.rs::ScanlineIntersections::new;src/primitives/triangle/scanline_intersections.rs::ScanlineIntersections::next;src/primitives/triangle/scanline_intersections.rs::ScanlineIntersections::generate_lines;src/primitives/triangle/scanline_intersections.rs::ScanlineIntersections::reset_with_new_scanline
    #[kani::proof]
    #[kani::unwind(5)]
    #[kani::stub(crate::primitives::triangle::Triangle::scanline_intersection, row_fixed)]
    #[kani::stub(crate::primitives::triangle::Triangle::is_collapsed, collapsed_fixed)]
    fn c19_triangle_scanline_iterator_step() {
        init_fixed();
        let t = any_triangle();
        let (a, b, y0): (i32, i32, i32) = (kani::any(), kani::any(), kani::any());
        kani::assume(-2048 <= a && a <= b && b <= 2048 && -2048 <= y0 && y0 <= 2048);
        let fresh = ScanlineIntersections::new(&t, 0, StrokeOffset::None, true, y0);
        let mut it = ScanlineIterator { rows: a..b, scanline_y: y0, intersections: fresh };
        let r = it.next();
        let row0 = row_fixed(&t, y0);
        if !row0.is_empty() {
            assert!(r == Some((row0, PointType::Fill)));
            assert!(it.rows == (a..b) && it.scanline_y == y0);
            let r2 = it.next();
            if a < b {
                let row1 = row_fixed(&t, a);
                assert!(it.scanline_y == a && it.rows == (a + 1..b));
                if !row1.is_empty() {
                    assert!(r2 == Some((row1, PointType::Fill)));
                } else {
                    assert!(r2.is_none());
                }
            } else {
                assert!(r2.is_none());
            }
            kani::cover!(r2.is_some());
            kani::cover!(r2.is_none() && a == b);
        }
        // constructor
        let bb = Rectangle::new(any_point(1024), Size::new(kani::any::<u16>() as u32 & 2047, kani::any::<u16>() as u32 & 2047));
        let mut n = ScanlineIterator::new(&t, 0, StrokeOffset::None, true, &bb);
        if bb.size.height > 0 {
            let top = bb.top_left.y;
            assert!(n.rows == (top + 1..top + bb.size.height as i32) && n.scanline_y == top);
            assert!(n.intersections == ScanlineIntersections::new(&t.sorted_clockwise(), 0, StrokeOffset::None, true, top));
        } else {
            assert!(n.next().is_none());
        }
        kani::cover!(bb.size.height > 1);
    }
}
//@end

//@append src/primitives/triangle/points.rs
#[cfg(kani)]
#[allow(missing_docs, trivial_casts, trivial_numeric_casts, unused_qualifications, dead_code, unused)]
mod verif_c19p {
    use super::*;
    use crate::primitives::triangle::scanline_iterator::verif_c19i::{any_triangle, init_fixed};

    /// Triangle::points() flattens the fill scanlines: constructor = scanline iterator over the
    /// bounding box with no stroke and a fill, no current line; a non-empty current line yields its
    /// left-most point and shrinks by it, the scanline iterator is untouched; an exhausted current line
    /// is replaced by the next scanline of the iterator (its first point is yielded); the end of the
    /// scanlines ends the iteration. Together with c19_triangle_scanline_iterator_step and
    /// c19_triangle_row this is "each point contains() accepts exactly once, in row-major order".
    //@harness prop=C19,C05 kind=step tier=quick class=I bound="scanline iterator states reached from the constructor after 0..=2 steps (any triangle within +-1024)" kani="--no-assertion-reach-checks" fns=src/primitives/triangle/points.rs::Points::new;src/primitives/triangle/points.rs::Points::next
    #[kani::proof]
    #[kani::unwind(5)]
    #[kani::stub(crate::primitives::triangle::Triangle::scanline_intersection, crate::primitives::triangle::scanline_iterator::verif_c19i::row_fixed)]
    #[kani::stub(crate::primitives::triangle::Triangle::is_collapsed, crate::primitives::triangle::scanline_iterator::verif_c19i::collapsed_fixed)]
    fn c19_triangle_points_step() {
        init_fixed();
        let t = any_triangle();
        let n = Points::new(&t);
        let it0 = ScanlineIterator::new(&t, 0, StrokeOffset::None, true, &t.bounding_box());
        assert!(n.scanline_iter == it0 && n.current_line.is_empty());
        let mut it = it0.clone();
        let k: u8 = kani::any();
        kani::assume(k <= 2);
        if k >= 1 { let _ = it.next(); }
        if k >= 2 { let _ = it.next(); }
        // non-empty current line
        let (y, x0, x1): (i32, i32, i32) = (kani::any(), kani::any(), kani::any());
        kani::assume(x0 < x1);
        let mut p = Points { scanline_iter: it.clone(), current_line: Scanline::new(y, x0..x1) };
        assert!(p.next() == Some(Point::new(x0, y)));
        assert!(p.current_line == Scanline::new(y, x0 + 1..x1) && p.scanline_iter == it);
        // exhausted current line
        let mut p = Points { scanline_iter: it.clone(), current_line: Scanline::new(y, x0..x0) };
        let mut it2 = it.clone();
        let r = p.next();
        match it2.next() {
            None => assert!(r.is_none()),
            Some((l, _)) => {
                assert!(!l.is_empty());
                assert!(r == Some(Point::new(l.x.start, l.y)));
                assert!(p.current_line == Scanline::new(l.y, l.x.start + 1..l.x.end));
                assert!(p.scanline_iter == it2);
            }
        }
        kani::cover!(r.is_some() && k == 2);
        kani::cover!(r.is_none());
    }
}
//@end

//@append src/primitives/triangle/styled.rs
#[cfg(kani)]
#[allow(missing_docs, trivial_casts, trivial_numeric_casts, unused_qualifications, dead_code, unused)]
mod verif_c19d {
    use super::*;
    use crate::{
        geometry::Size,
        pixelcolor::Gray8,
        primitives::{triangle::scanline_iterator::verif_c19i::{init_fixed, row_fixed}, Primitive},
        verif_probe::{any_point, sp, ProbeNative, ProbeState},
        Drawable,
    };

    unsafe fn verif_rows_nonempty() -> bool {
        use crate::primitives::triangle::scanline_iterator::verif_c19i::ROWS;
        ROWS[0].0 < ROWS[0].1 && ROWS[1].0 < ROWS[1].1 && ROWS[2].0 < ROWS[2].1 && ROWS[3].0 < ROWS[3].1
    }

    /// A filled triangle without stroke paints exactly the fill rows (scanline_intersection(y) for every
    /// row y of its bounding box) in the fill colour and nothing else, whatever stroke width 0 style is
    /// used; a transparent style draws nothing. Rows through the pure-function stand-in, bounding box
    /// height <= 3 (the draw loop runs once per row).
    //@harness prop=C19,C02 kind=bounded tier=quick class=P bound="bounding box height <= 3 rows (draw loop), x within +-1024; stroke alignment Center or Outside (Inside: thorough lemma)" timeout=900 kani="--no-assertion-reach-checks" fns=src/primitives/triangle/styled.rs::Triangle::draw_styled
    #[kani::proof]
    #[kani::unwind(5)]
    #[kani::stub(crate::primitives::triangle::Triangle::scanline_intersection, crate::primitives::triangle::scanline_iterator::verif_c19i::row_fixed)]
    #[kani::stub(crate::primitives::triangle::Triangle::is_collapsed, crate::primitives::triangle::scanline_iterator::verif_c19i::collapsed_fixed)]
    fn c19_triangle_draw_fill_probe() {
        init_fixed();
        // rows of a triangle are never empty inside its bounding box (c19_triangle_row); an empty row would end
        // the scanline iteration (c19_triangle_scanline_iterator_step)
        kani::assume(unsafe { verif_rows_nonempty() });
        let py = || (kani::any::<u8>() & 3) as i32;
        let y0: i32 = kani::any();
        kani::assume(-1024 <= y0 && y0 <= 1024);
        let v = |dy: i32| Point::new(any_point(1024).x, y0 + dy);
        let (d1, d2, d3) = (py(), py(), py());
        kani::assume(d1 <= 2 && d2 <= 2 && d3 <= 2);
        let t = Triangle::new(v(d1), v(d2), v(d3));
        let fill: Option<Gray8> = if kani::any() { Some(Gray8::new(50)) } else { None };
        let mut style = PrimitiveStyle::<Gray8>::new();
        style.fill_color = fill;
        style.stroke_color = if kani::any() { Some(Gray8::new(200)) } else { None };
        style.stroke_width = 0;
        // Center / Outside: is_collapsed() (arbitrary here) must not matter. Inside needs "a triangle with non-zero
        // area is not collapsed at stroke width 0" (c19_triangle_not_collapsed_without_stroke, thorough tier).
        style.stroke_alignment = if kani::any() { StrokeAlignment::Center } else { StrokeAlignment::Outside };
        let q = any_point(8192);
        let bb = t.bounding_box();
        let mut target = ProbeNative::<Gray8>(ProbeState::new(q, crate::verif_probe::everything(), crate::verif_probe::everything()));
        t.into_styled(style).draw(&mut target).unwrap();
        let row = row_fixed(&t, q.y);
        let in_rows = sp::top(&bb) <= q.y as i64 && (q.y as i64) < sp::bottom(&bb);
        let expected = if in_rows && row.x.start <= q.x && q.x < row.x.end { fill } else { None };
        assert!(target.0.last == expected);
        assert!(target.0.writes <= 1);
        kani::cover!(expected.is_some());
        kani::cover!(fill.is_some() && in_rows && expected.is_none());
    }

    /// C04 for the triangle draw loop (`for (line, kind) in ScanlineIterator { .. fill_solid(..)? }`): when the
    /// k-th target call fails, draw() returns exactly that error, makes no further call, and the calls before
    /// it are those of the fault-free run. Fill rows through the pure-function stand-in, <= 3 rows.
    //@harness prop=C04,C19 kind=bounded tier=quick class=P bound="bounding box height <= 3 rows (draw loop), fault at call k <= 4" timeout=900 kani="--no-assertion-reach-checks" fns=src/primitives/triangle/styled.rs::Triangle::draw_styled
    #[kani::proof]
    #[kani::unwind(5)]
    #[kani::stub(crate::primitives::triangle::Triangle::scanline_intersection, crate::primitives::triangle::scanline_iterator::verif_c19i::row_fixed)]
    #[kani::stub(crate::primitives::triangle::Triangle::is_collapsed, crate::primitives::triangle::scanline_iterator::verif_c19i::collapsed_fixed)]
    fn c04_triangle_fill_fault_at_k() {
        init_fixed();
        kani::assume(unsafe { verif_rows_nonempty() });
        let py = || (kani::any::<u8>() & 3) as i32;
        let y0: i32 = kani::any();
        kani::assume(-1024 <= y0 && y0 <= 1024);
        let v = |dy: i32| Point::new(any_point(1024).x, y0 + dy);
        let (d1, d2, d3) = (py(), py(), py());
        kani::assume(d1 <= 2 && d2 <= 2 && d3 <= 2);
        let t = Triangle::new(v(d1), v(d2), v(d3));
        let mut style = PrimitiveStyle::<Gray8>::with_fill(Gray8::new(50));
        style.stroke_alignment = if kani::any() { StrokeAlignment::Center } else { StrokeAlignment::Outside };
        let styled = t.into_styled(style);
        let k: u32 = kani::any();
        kani::assume(k >= 1 && k <= 4);
        let q = any_point(8192);
        let mut ok = ProbeNative::<Gray8>(ProbeState::new(q, crate::verif_probe::everything(), crate::verif_probe::everything()));
        ok.0.log_upto = k;
        styled.draw(&mut ok).unwrap();
        let n = ok.0.calls;
        assert!(n == t.bounding_box().size.height);
        let mut f = ProbeNative::<Gray8>(ProbeState::new(q, crate::verif_probe::everything(), crate::verif_probe::everything()));
        f.0.fail_at = k;
        let r = styled.draw(&mut f);
        if k <= n {
            assert!(r == Err(k) && f.0.calls == k && !f.0.called_after_fail && f.0.log == ok.0.log);
        } else {
            assert!(r.is_ok() && f.0.calls == n);
        }
        kani::cover!(k == 2 && n == 3);
        kani::cover!(k == 4 && n == 3);
    }
}
//@end

//@append src/primitives/triangle/scanline_intersections.rs
#[cfg(kani)]
#[allow(missing_docs, trivial_casts, trivial_numeric_casts, unused_qualifications, dead_code, unused)]
mod verif_c19x {
    use super::*;
    use crate::primitives::triangle::scanline_iterator::verif_c19i::{any_triangle, init_fixed, row_fixed};

    /// Stand-ins: the three edge segments of a stroked triangle intersect the scanline in three arbitrary
    /// (possibly empty) runs, handed out in call order; joins are not inspected by the stand-in.
    static mut SEG: [(i32, i32); 3] = [(0, 0); 3];
    static mut SEG_CALLS: usize = 0;
    fn seg_fixed(_s: &ThickSegment, y: i32) -> Scanline {
        let (a, b) = unsafe {
            let i = SEG_CALLS;
            SEG_CALLS += 1;
            SEG[i % 3]
        };
        Scanline::new(y, a..b)
    }
    fn join_fixed(_a: Point, _b: Point, _c: Point, _w: u32, _o: StrokeOffset) -> LineJoin {
        LineJoin::empty()
    }
    fn has(s: (i32, i32), x: i32) -> bool {
        s.0 <= x && x < s.1
    }
    fn touch(a: (i32, i32), b: (i32, i32)) -> bool {
        a.0 < a.1 && b.0 < b.1 && a.0 <= b.1 && b.0 <= a.1
    }

    /// Stroked triangle, one scanline: the runs the iterator yields are exactly the union of the three edge
    /// segments' intersections with that row (the "outline consists of its three edge lines" plumbing; each
    /// pixel in one run only), whenever those form at most two separate clusters -- a closed outline crosses
    /// a row in at most two places. With a fill colour the Fill run is exactly the gap between the two stroke
    /// clusters; a row no edge touches gets the plain fill row; one cluster means no fill on that row.
    /// Unbounded: edge intersections and joins through pure-function stand-ins.
    //@harness prop=C19 kind=step tier=quick class=I bound="three arbitrary edge runs per row forming at most two clusters" kani="--no-assertion-reach-checks" fns=src/primitives/triangle/scanline_intersections.rs::ScanlineIntersections::edge_intersections;src/primitives/triangle/scanline_intersections.rs::ScanlineIntersections::generate_lines;src/primitives/triangle/scanline_intersections.rs::ScanlineIntersections::next
    #[kani::proof]
    #[kani::unwind(5)]
    #[kani::stub(crate::primitives::common::ThickSegment::intersection, seg_fixed)]
    #[kani::stub(crate::primitives::common::LineJoin::from_points, join_fixed)]
    #[kani::stub(crate::primitives::triangle::Triangle::scanline_intersection, crate::primitives::triangle::scanline_iterator::verif_c19i::row_fixed)]
    #[kani::stub(crate::primitives::triangle::Triangle::is_collapsed, crate::primitives::triangle::scanline_iterator::verif_c19i::collapsed_fixed)]
    fn c19_triangle_stroke_rows_merge() {
        init_fixed();
        let mut s = [(0i32, 0i32); 3];
        let mut i = 0;
        while i < 3 {
            let (a, b): (i32, i32) = (kani::any(), kani::any());
            kani::assume(-4096 <= a && a <= b && b <= 4096);
            s[i] = (a, b);
            i += 1;
        }
        unsafe {
            SEG = s;
            SEG_CALLS = 0;
        }
        // at most two clusters
        let three = s[0].0 < s[0].1 && s[1].0 < s[1].1 && s[2].0 < s[2].1;
        kani::assume(!(three && !touch(s[0], s[1]) && !touch(s[0], s[2]) && !touch(s[1], s[2])));
        let t = any_triangle();
        let y: i32 = kani::any();
        kani::assume(-2048 <= y && y <= 2048);
        let has_fill: bool = kani::any();
        let w: u32 = kani::any();
        kani::assume(w >= 1 && w <= 128);
        let off = if kani::any() { StrokeOffset::None } else { StrokeOffset::Left };
        let mut it = ScanlineIntersections::new(&t, w, off, has_fill, y);
        let q: i32 = kani::any();
        let (mut stroke_hits, mut fill_hits, mut items) = (0u32, 0u32, 0u32);
        let mut k = 0;
        while k < 4 {
            if let Some((run, ty)) = it.next() {
                assert!(run.y == y && !run.is_empty());
                items += 1;
                if run.x.start <= q && q < run.x.end {
                    if ty == PointType::Stroke { stroke_hits += 1 } else { fill_hits += 1 }
                }
            }
            k += 1;
        }
        assert!(items <= 3);
        let in_union = has(s[0], q) || has(s[1], q) || has(s[2], q);
        assert!(stroke_hits == if in_union { 1 } else { 0 });
        assert!(!(stroke_hits == 1 && fill_hits == 1));
        // hull of the union and number of clusters
        let nonempty = |r: (i32, i32)| r.0 < r.1;
        let any_run = nonempty(s[0]) || nonempty(s[1]) || nonempty(s[2]);
        if !has_fill {
            assert!(fill_hits == 0);
        } else if !any_run {
            let row = row_fixed(&t, y);
            assert!((fill_hits == 1) == (row.x.start <= q && q < row.x.end));
        } else {
            let lo = [s[0], s[1], s[2]].iter().filter(|r| nonempty(**r)).map(|r| r.0).min().unwrap();
            let hi = [s[0], s[1], s[2]].iter().filter(|r| nonempty(**r)).map(|r| r.1).max().unwrap();
            // the fill is the part of the hull no edge run covers (empty when there is a single cluster)
            assert!((fill_hits == 1) == (lo <= q && q < hi && !in_union));
        }
        kani::cover!(items == 3 && fill_hits == 1);
        kani::cover!(items == 2 && !has_fill);
        kani::cover!(items == 1 && three);
    }
}
//@end

//@append src/primitives/common/line_join.rs
#[cfg(kani)]
#[allow(missing_docs, trivial_casts, trivial_numeric_casts, unused_qualifications, dead_code, unused)]
mod verif_c19j {
    use super::*;

    /// One-pixel strokes: every join of a width-1 outline collapses to the vertex itself (left == right ==
    /// the shared vertex on both edges), so each edge segment of the outline is a skeleton whose scanline
    /// intersection is the Bresenham line between the two vertices (c19_thick_segment_skeleton_row).
    //@harness prop=C19 kind=bounded tier=thorough class=P bound="vertices within -8..=7 (4-bit coordinates), stroke width 1, centred stroke (did not finish in 15 min)" timeout=3000 kani="--no-assertion-reach-checks" fns=src/primitives/common/line_join.rs::LineJoin::from_points;src/primitives/common/line_join.rs::LineJoin::start;src/primitives/common/line_join.rs::LineJoin::end
    #[kani::proof]
    #[kani::unwind(5)]
    fn c19_width1_joins_are_vertices() {
        let c = || (kani::any::<u8>() & 15) as i32 - 8;
        let (a, b, d) = (Point::new(c(), c()), Point::new(c(), c()), Point::new(c(), c()));
        let j = LineJoin::from_points(a, b, d, 1, StrokeOffset::None);
        assert!(j.first_edge_end.left == b && j.first_edge_end.right == b);
        assert!(j.second_edge_start.left == b && j.second_edge_start.right == b);
        let s = LineJoin::start(a, b, 1, StrokeOffset::None);
        assert!(s.second_edge_start.left == a && s.second_edge_start.right == a && s.first_edge_end.left == s.first_edge_end.right);
        let e = LineJoin::end(a, b, 1, StrokeOffset::None);
        assert!(e.first_edge_end.left == b && e.first_edge_end.right == b);
        kani::cover!(a != b && b != d && a != d);
        kani::cover!(a == b);
    }
}
//@end
