//! Unit `c09_images`: ImageRaw, ContiguousPixels, SubImage, Image (property C09).
//@unit c09_images
//@crate main
//@needs arb probe

//@attach src/image/image_raw.rs :: const fn bytes_per_row(width: u32, bits_per_pixel: usize) -> usize {
#[kani::requires(bits_per_pixel >= 1 && bits_per_pixel <= 32)]
#[kani::ensures(|r: &usize| (*r as u64) * 8 >= width as u64 * bits_per_pixel as u64 && (*r as u64) * 8 < width as u64 * bits_per_pixel as u64 + 8)]
//@end

// accessors for private state (added lines only; cfg(kani))
//@append src/iterator/raw.rs
#[cfg(kani)]
impl<'a, R, O> RawDataIterator<'a, R, O> {
    pub(crate) fn verif_index(&self) -> usize {
        self.index
    }
    pub(crate) fn verif_at(data: &'a [u8], index: usize) -> Self {
        Self { data, index, raw_type: PhantomData, data_order: PhantomData }
    }
}
//@end

//@append src/image/image_raw.rs
#[cfg(kani)]
#[allow(missing_docs, trivial_casts, trivial_numeric_casts, unused_qualifications, dead_code, unused)]
pub(crate) mod verif_c09 {
    use super::*;
    use crate::{
        image::{Image, ImageDrawableExt, SubImage},
        iterator::raw::RawDataIterator,
        pixelcolor::{raw::*, BinaryColor, Gray2, Gray4, Gray8, Rgb565, Rgb888},
        verif_probe::{any_point, any_rect, everything, sp, ColorU32, ProbeIter, ProbeNative, ProbeState},
        Drawable,
    };

    pub const L: usize = 16;

    /// required buffer length: rows padded to whole bytes
    pub fn bpr(w: u32, bpp: usize) -> usize {
        (w as usize * bpp + 7) / 8
    }
    pub fn expected_len(w: u32, h: u32, bpp: usize) -> usize {
        bpr(w, bpp) * h as usize
    }
    /// padded row width in pixels
    pub fn dw_spec(w: u32, bpp: usize) -> usize {
        if bpp < 8 { bpr(w, bpp) * (8 / bpp) } else { w as usize }
    }
    /// Specification of pixel(): pixel x of the byte row that starts at y * bytes_per_row
    /// (rows padded to whole bytes), decoded by RawData::load (C11) in the image's data order.
    pub fn pixel_spec<C: PixelColor, O: DataOrder>(data: &[u8], w: u32, h: u32, p: Point) -> Option<C> {
        if p.x < 0 || p.y < 0 || p.x as i64 >= w as i64 || p.y as i64 >= h as i64 {
            return None;
        }
        let row = bpr(w, C::Raw::BITS_PER_PIXEL);
        let start = p.y as usize * row;
        C::Raw::load::<O>(&data[start..start + row], p.x as usize).map(|r| r.into())
    }

    /// symbolic image: symbolic contents, symbolic size (<= 8x8) whose data fits the L-byte buffer
    pub fn any_image<'a, C: PixelColor, O: DataOrder>(buf: &'a [u8; L]) -> ImageRaw<'a, C, O> {
        let w: u32 = kani::any();
        let h: u32 = kani::any();
        kani::assume(w <= 8 && h <= 8);
        let n = expected_len(w, h, C::Raw::BITS_PER_PIXEL);
        kani::assume(n <= L);
        match ImageRaw::new(&buf[..n], Size::new(w, h)) {
            Ok(i) => i,
            Err(_) => {
                assert!(false, "ImageRaw::new rejected a buffer of the required length");
                unreachable!()
            }
        }
    }

    //@harness prop=C09 kind=contract tier=quick class=P fns=src/image/image_raw.rs::bytes_per_row
    #[kani::proof_for_contract(bytes_per_row)]
    fn c09_bytes_per_row() {
        let _ = bytes_per_row(kani::any(), kani::any());
        kani::cover!(true);
    }

    /// ImageRaw::new accepts exactly buffers of the required length (all sizes <= 2^16, all lengths <= 64)
    fn new_contract<C: PixelColor, O: DataOrder>() {
        let buf = [0u8; 64];
        let len: usize = kani::any();
        kani::assume(len <= 64);
        let w: u32 = kani::any();
        let h: u32 = kani::any();
        kani::assume(w <= 65536 && h <= 65536);
        let r = ImageRaw::<C, O>::new(&buf[..len], Size::new(w, h));
        let exp = expected_len(w, h, C::Raw::BITS_PER_PIXEL);
        match r {
            Ok(ref img) => {
                assert!(len == exp);
                assert!(img.size() == Size::new(w, h) && img.bounding_box() == Rectangle::new(Point::zero(), Size::new(w, h)));
                assert!(img.data_width() as usize == dw_spec(w, C::Raw::BITS_PER_PIXEL));
            }
            Err(ImageRawError::InvalidDataSize { expected_data_size }) => {
                assert!(len != exp && expected_data_size == exp);
            }
        }
        kani::cover!(r.is_ok() && w > 1 && h > 1);
        kani::cover!(r.is_err());
    }
    //@harness prop=C09,C08 kind=contract tier=quick class=P bound="buffer length <= 64, sizes <= 65536" fns=src/image/image_raw.rs::ImageRaw::new;src/image/image_raw.rs::ImageRaw::data_width
    #[kani::proof]
    fn c09_new_bpp1() { new_contract::<BinaryColor, LittleEndianMsb0>(); }
    //@harness prop=C09 kind=contract tier=quick class=P bound="buffer length <= 64, sizes <= 65536"
    #[kani::proof]
    fn c09_new_bpp2() { new_contract::<Gray2, BigEndianLsb0>(); }
    //@harness prop=C09 kind=contract tier=quick class=P bound="buffer length <= 64, sizes <= 65536"
    #[kani::proof]
    fn c09_new_bpp4() { new_contract::<Gray4, LittleEndianMsb0>(); }
    //@harness prop=C09 kind=contract tier=quick class=P bound="buffer length <= 64, sizes <= 65536"
    #[kani::proof]
    fn c09_new_bpp8() { new_contract::<Gray8, LittleEndianMsb0>(); }
    //@harness prop=C09 kind=contract tier=quick class=P bound="buffer length <= 64, sizes <= 65536"
    #[kani::proof]
    fn c09_new_bpp16() { new_contract::<Rgb565, BigEndianLsb0>(); }
    //@harness prop=C09,C08 kind=contract tier=quick class=P bound="buffer length <= 64, sizes <= 65536"
    #[kani::proof]
    fn c09_new_bpp24() { new_contract::<Rgb888, LittleEndianMsb0>(); }
    //@harness prop=C09 kind=contract tier=quick class=P bound="buffer length <= 64, sizes <= 65536"
    #[kani::proof]
    fn c09_new_bpp32() { new_contract::<ColorU32, LittleEndianMsb0>(); }

    /// pixel(p): None exactly outside the bounding box, otherwise the padded-row pixel (every i32 point)
    fn pixel_contract<'a, C: PixelColor, O: DataOrder>(buf: &'a [u8; L])
    where
        RawDataSlice<'a, C::Raw, O>: IntoIterator<Item = C::Raw>,
    {
        let img = any_image::<C, O>(buf);
        let p: Point = kani::any();
        let r = img.pixel(p);
        assert!(r.is_none() == !sp::contains(&img.bounding_box(), p));
        assert!(r == pixel_spec::<C, O>(img.data, img.size.width, img.size.height, p));
        kani::cover!(r.is_some() && p.y > 0 && p.x > 0);
        kani::cover!(r.is_none() && p.x >= 0 && p.y >= 0);
    }
    //@harness prop=C09,C08 kind=contract tier=quick class=P bound="image data <= 16 bytes, size <= 8x8, every point" fns=src/image/image_raw.rs::ImageRaw::pixel
    #[kani::proof]
    #[kani::unwind(6)]
    fn c09_pixel_bpp1_le() { let b: [u8; L] = kani::any(); pixel_contract::<BinaryColor, LittleEndianMsb0>(&b); }
    //@harness prop=C09 kind=contract tier=quick class=P bound="image data <= 16 bytes, size <= 8x8, every point"
    #[kani::proof]
    #[kani::unwind(6)]
    fn c09_pixel_bpp1_be() { let b: [u8; L] = kani::any(); pixel_contract::<BinaryColor, BigEndianLsb0>(&b); }
    //@harness prop=C09 kind=contract tier=quick class=P bound="image data <= 16 bytes, size <= 8x8, every point"
    #[kani::proof]
    #[kani::unwind(6)]
    fn c09_pixel_bpp2_le() { let b: [u8; L] = kani::any(); pixel_contract::<Gray2, LittleEndianMsb0>(&b); }
    //@harness prop=C09 kind=contract tier=quick class=P bound="image data <= 16 bytes, size <= 8x8, every point"
    #[kani::proof]
    #[kani::unwind(6)]
    fn c09_pixel_bpp2_be() { let b: [u8; L] = kani::any(); pixel_contract::<Gray2, BigEndianLsb0>(&b); }
    //@harness prop=C09 kind=contract tier=quick class=P bound="image data <= 16 bytes, size <= 8x8, every point"
    #[kani::proof]
    #[kani::unwind(6)]
    fn c09_pixel_bpp4_le() { let b: [u8; L] = kani::any(); pixel_contract::<Gray4, LittleEndianMsb0>(&b); }
    //@harness prop=C09 kind=contract tier=quick class=P bound="image data <= 16 bytes, size <= 8x8, every point"
    #[kani::proof]
    #[kani::unwind(6)]
    fn c09_pixel_bpp4_be() { let b: [u8; L] = kani::any(); pixel_contract::<Gray4, BigEndianLsb0>(&b); }
    //@harness prop=C09 kind=contract tier=quick class=P bound="image data <= 16 bytes, size <= 8x8, every point"
    #[kani::proof]
    #[kani::unwind(6)]
    fn c09_pixel_bpp8() { let b: [u8; L] = kani::any(); pixel_contract::<Gray8, LittleEndianMsb0>(&b); }
    //@harness prop=C09 kind=contract tier=quick class=P bound="image data <= 16 bytes, size <= 8x8, every point"
    #[kani::proof]
    #[kani::unwind(6)]
    fn c09_pixel_bpp16_le() { let b: [u8; L] = kani::any(); pixel_contract::<Rgb565, LittleEndianMsb0>(&b); }
    //@harness prop=C09 kind=contract tier=quick class=P bound="image data <= 16 bytes, size <= 8x8, every point"
    #[kani::proof]
    #[kani::unwind(6)]
    fn c09_pixel_bpp16_be() { let b: [u8; L] = kani::any(); pixel_contract::<Rgb565, BigEndianLsb0>(&b); }
    //@harness prop=C09 kind=contract tier=quick class=P bound="image data <= 16 bytes, size <= 8x8, every point"
    #[kani::proof]
    #[kani::unwind(6)]
    fn c09_pixel_bpp24_le() { let b: [u8; L] = kani::any(); pixel_contract::<Rgb888, LittleEndianMsb0>(&b); }
    //@harness prop=C09,C08 kind=contract tier=quick class=P bound="image data <= 16 bytes, size <= 8x8, every point"
    #[kani::proof]
    #[kani::unwind(6)]
    fn c09_pixel_bpp24_be() { let b: [u8; L] = kani::any(); pixel_contract::<Rgb888, BigEndianLsb0>(&b); }
    //@harness prop=C09 kind=contract tier=quick class=P bound="image data <= 16 bytes, size <= 8x8, every point"
    #[kani::proof]
    #[kani::unwind(6)]
    fn c09_pixel_bpp32_le() { let b: [u8; L] = kani::any(); pixel_contract::<ColorU32, LittleEndianMsb0>(&b); }
    //@harness prop=C09 kind=contract tier=quick class=P bound="image data <= 16 bytes, size <= 8x8, every point"
    #[kani::proof]
    #[kani::unwind(6)]
    fn c09_pixel_bpp32_be() { let b: [u8; L] = kani::any(); pixel_contract::<ColorU32, BigEndianLsb0>(&b); }

    // ------------------------------------------------------------ ContiguousPixels
    /// Constructor contract (the stream has exactly width x height items): starting counters are
    /// (remaining_x, remaining_y) = (w, h - 1) for a non-empty size and (0, 0) otherwise -- one row
    /// in progress plus h - 1 rows to come; the source index is initial_skip.
    //@harness prop=C09 kind=contract tier=quick class=P fns=src/image/image_raw.rs::ContiguousPixels::new
    #[kani::proof]
    #[kani::unwind(6)]
    fn c09_contiguous_new() {
        let buf: [u8; L] = kani::any();
        let img = any_image::<Gray8, LittleEndianMsb0>(&buf);
        let size: Size = kani::any();
        let initial_skip: usize = kani::any();
        let row_skip: usize = kani::any();
        kani::assume(initial_skip <= 1 << 20);
        let s = ContiguousPixels::new(&img, size, initial_skip, row_skip);
        assert!(s.width == size.width && s.row_skip == row_skip);
        if size.width > 0 && size.height > 0 {
            assert!(s.remaining_x == size.width && s.remaining_y == size.height - 1);
        } else {
            assert!(s.remaining_x == 0 && s.remaining_y == 0);
        }
        // source position: initial_skip items were skipped (or the data ended before)
        let n = img.data.len();
        assert!(s.iter.verif_index() == initial_skip || (initial_skip > n && s.iter.verif_index() >= n));
        kani::cover!(size.width > 0 && size.height > 1 && initial_skip > 0);
    }

    /// Step contract from an arbitrary state: inside a row the next source pixel is returned and
    /// remaining_x decrements; at a row end with rows left the pixel row_skip further is returned,
    /// remaining_y decrements and remaining_x = width - 1; with no rows left: None, state unchanged.
    /// The measure remaining_x + remaining_y * width decreases by exactly one per returned item, so a
    /// stream constructed with (w, h - 1) has exactly w * h items (given enough source data).
    fn contiguous_step<'a, C: PixelColor, O: DataOrder>(buf: &'a [u8; L])
    where
        RawDataSlice<'a, C::Raw, O>: IntoIterator<Item = C::Raw, IntoIter = RawDataIterator<'a, C::Raw, O>>,
    {
        let len: usize = kani::any();
        kani::assume(len <= L);
        let data = &buf[..len];
        let index: usize = kani::any();
        kani::assume(index <= 1 << 20);
        let it = RawDataIterator::<C::Raw, O>::verif_at(data, index);
        let mut s = ContiguousPixels::<C, O> { iter: it, remaining_x: kani::any(), width: kani::any(), remaining_y: kani::any(), row_skip: kani::any() };
        kani::assume(s.width >= 1 && s.remaining_x <= s.width && s.row_skip <= 1 << 20);
        let (rx, ry, w, rs) = (s.remaining_x, s.remaining_y, s.width, s.row_skip);
        let r = s.next();
        assert!(s.width == w && s.row_skip == rs);
        if rx > 0 {
            let e: Option<C> = C::Raw::load::<O>(data, index).map(|x| x.into());
            assert!(r == e);
            assert!(s.remaining_x == rx - 1 && s.remaining_y == ry);
            assert!(r.is_none() || s.iter.verif_index() == index + 1);
        } else if ry > 0 {
            let e: Option<C> = C::Raw::load::<O>(data, index + rs).map(|x| x.into());
            assert!(r == e);
            assert!(s.remaining_x == w - 1 && s.remaining_y == ry - 1);
            assert!(r.is_none() || s.iter.verif_index() == index + rs + 1);
        } else {
            assert!(r.is_none() && s.remaining_x == 0 && s.remaining_y == 0 && s.iter.verif_index() == index);
        }
        kani::cover!(rx > 0 && r.is_some());
        kani::cover!(rx == 0 && ry > 0 && r.is_some());
        kani::cover!(rx == 0 && ry == 0);
    }
    //@harness prop=C09 kind=step tier=quick class=I bound="source data <= 16 bytes (counters, skips unrestricted)" fns=src/image/image_raw.rs::ContiguousPixels::next
    #[kani::proof]
    #[kani::unwind(6)]
    fn c09_contiguous_step_bpp1() { let b: [u8; L] = kani::any(); contiguous_step::<BinaryColor, LittleEndianMsb0>(&b); }
    //@harness prop=C09 kind=step tier=quick class=I bound="source data <= 16 bytes (counters, skips unrestricted)"
    #[kani::proof]
    #[kani::unwind(6)]
    fn c09_contiguous_step_bpp4_be() { let b: [u8; L] = kani::any(); contiguous_step::<Gray4, BigEndianLsb0>(&b); }
    //@harness prop=C09 kind=step tier=quick class=I bound="source data <= 16 bytes (counters, skips unrestricted)"
    #[kani::proof]
    #[kani::unwind(6)]
    fn c09_contiguous_step_bpp16() { let b: [u8; L] = kani::any(); contiguous_step::<Rgb565, LittleEndianMsb0>(&b); }
    //@harness prop=C09 kind=step tier=quick class=I bound="source data <= 16 bytes (counters, skips unrestricted)"
    #[kani::proof]
    #[kani::unwind(6)]
    fn c09_contiguous_step_bpp24_be() { let b: [u8; L] = kani::any(); contiguous_step::<Rgb888, BigEndianLsb0>(&b); }

    // ------------------------------------------------------------ drawing
    /// A target that drains the colour iterator completely and records length and the k-th item.
    pub struct Drain<C> {
        pub k: u32,
        pub item: Option<C>,
        pub count: u32,
        pub area: Rectangle,
        pub calls: u32,
    }
    impl<C: PixelColor> Dimensions for Drain<C> {
        fn bounding_box(&self) -> Rectangle {
            Rectangle::new(Point::new(-4096, -4096), Size::new(8192, 8192))
        }
    }
    impl<C: PixelColor> DrawTarget for Drain<C> {
        type Color = C;
        type Error = core::convert::Infallible;
        fn draw_iter<I: IntoIterator<Item = crate::Pixel<C>>>(&mut self, _p: I) -> Result<(), Self::Error> {
            assert!(false, "images are drawn with fill_contiguous");
            Ok(())
        }
        fn fill_contiguous<I: IntoIterator<Item = C>>(&mut self, area: &Rectangle, colors: I) -> Result<(), Self::Error> {
            self.calls += 1;
            self.area = *area;
            for c in colors {
                if self.count == self.k {
                    self.item = Some(c);
                }
                self.count += 1;
            }
            Ok(())
        }
    }

    /// Image / sub-image drawn to the draining target: the stream has exactly w x h colours and the
    /// k-th colour is pixel(area.top_left + (k mod w, k div w)); area handed to the target is the
    /// translated (sub-)image box. Sub-image areas: inside, overlapping, outside, zero sized.
    fn draw_drain<'a, C: PixelColor, O: DataOrder>(buf: &'a [u8; L])
    where
        RawDataSlice<'a, C::Raw, O>: IntoIterator<Item = C::Raw>,
    {
        let img = any_image::<C, O>(buf);
        kani::assume(img.size.width <= 4 && img.size.height <= 3);
        let o = any_point(1000);
        let k: u32 = kani::any();
        kani::assume(k < 12);
        let mut t = Drain::<C> { k, item: None, count: 0, area: Rectangle::zero(), calls: 0 };
        let sub: bool = kani::any();
        let eff: Rectangle;
        if sub {
            let a = any_rect(8);
            eff = sp::inter(&img.bounding_box(), &a);
            let s = img.sub_image(&a);
            assert!(sp::same_points(&Rectangle::new(Point::zero(), s.size()), &Rectangle::new(Point::zero(), eff.size)));
            Image::new(&s, o).draw(&mut t).unwrap();
        } else {
            eff = img.bounding_box();
            Image::new(&img, o).draw(&mut t).unwrap();
        }
        let n = eff.size.width * eff.size.height;
        assert!(t.count == n);
        if n > 0 {
            assert!(t.calls == 1);
            assert!(t.area == Rectangle::new(o, eff.size));
            if k < n {
                let p = eff.top_left + Point::new((k % eff.size.width) as i32, (k / eff.size.width) as i32);
                assert!(t.item == img.pixel(p));
                assert!(t.item.is_some());
            }
        }
        // (a 16 byte buffer holds 4x3 pixels only up to 8 bits per pixel)
        let big = C::Raw::BITS_PER_PIXEL > 8;
        kani::cover!(sub && (n == 6 || (big && n >= 2 && eff.size.width >= 2)));
        kani::cover!(!sub && (n == 12 || (big && n >= 4 && eff.size.height >= 2)));
        kani::cover!(sub && n == 0);
    }
    //@harness prop=C09,C01 kind=bounded tier=quick class=P bound="image <= 4x3 (stream drained), sub-image areas with |coordinates| <= 8" fns=src/image/image_raw.rs::ImageRaw::draw;src/image/image_raw.rs::ImageRaw::draw_sub_image;src/image/sub_image.rs::SubImage::new;src/image/sub_image.rs::SubImage::draw;src/image/mod.rs::Image::draw
    #[kani::proof]
    #[kani::unwind(14)]
    fn c09_draw_drain_bpp1() { let b: [u8; L] = kani::any(); draw_drain::<BinaryColor, LittleEndianMsb0>(&b); }
    //@harness prop=C09,C01 kind=bounded tier=quick class=P bound="image <= 4x3 (stream drained), sub-image areas with |coordinates| <= 8"
    #[kani::proof]
    #[kani::unwind(14)]
    fn c09_draw_drain_bpp2_be() { let b: [u8; L] = kani::any(); draw_drain::<Gray2, BigEndianLsb0>(&b); }
    //@harness prop=C09,C01 kind=bounded tier=quick class=P bound="image <= 4x3 (stream drained), sub-image areas with |coordinates| <= 8"
    #[kani::proof]
    #[kani::unwind(14)]
    fn c09_draw_drain_bpp8() { let b: [u8; L] = kani::any(); draw_drain::<Gray8, LittleEndianMsb0>(&b); }
    //@harness prop=C09,C01 kind=bounded tier=thorough class=P bound="image <= 4x3 (stream drained), sub-image areas with |coordinates| <= 8"
    #[kani::proof]
    #[kani::unwind(14)]
    fn c09_draw_drain_bpp16_be() { let b: [u8; L] = kani::any(); draw_drain::<Rgb565, BigEndianLsb0>(&b); }
    //@harness prop=C09,C01 kind=bounded tier=thorough class=P bound="image <= 4x3 (stream drained), sub-image areas with |coordinates| <= 8"
    #[kani::proof]
    #[kani::unwind(14)]
    fn c09_draw_drain_bpp24() { let b: [u8; L] = kani::any(); draw_drain::<Rgb888, LittleEndianMsb0>(&b); }
    //@harness prop=C09,C01 kind=bounded tier=thorough class=P bound="image <= 4x3 (stream drained), sub-image areas with |coordinates| <= 8"
    #[kani::proof]
    #[kani::unwind(14)]
    fn c09_draw_drain_bpp4() { let b: [u8; L] = kani::any(); draw_drain::<Gray4, LittleEndianMsb0>(&b); }

    /// Pixel map: drawing an Image at offset o sets target point o + p to pixel(p) for every p in the
    /// box and touches nothing else -- on a native target and on a draw_iter-only target (C01).
    fn draw_probe<'a, C: PixelColor, O: DataOrder>(buf: &'a [u8; L], native: bool)
    where
        RawDataSlice<'a, C::Raw, O>: IntoIterator<Item = C::Raw>,
    {
        let img = any_image::<C, O>(buf);
        kani::assume(img.size.width <= 3 && img.size.height <= 2);
        let o = any_point(1000);
        let q = any_point(2000);
        let bbox = any_rect(2000);
        let image = Image::new(&img, o);
        let bb = image.bounding_box();
        assert!(bb == Rectangle::new(o, img.size));
        let last;
        let writes;
        if native {
            let mut t = ProbeNative::<C>(ProbeState::new(q, bbox, bb));
            image.draw(&mut t).unwrap();
            assert!(!t.0.escaped);
            last = t.0.last;
            writes = t.0.writes;
        } else {
            let mut t = ProbeIter::<C>(ProbeState::new(q, bbox, bb));
            image.draw(&mut t).unwrap();
            assert!(!t.0.escaped);
            last = t.0.last;
            writes = t.0.writes;
        }
        let p = Point::new(q.x - o.x, q.y - o.y);
        assert!(last == img.pixel(p));
        assert!(writes <= 1);
        kani::cover!(last.is_some() && p.y == 1 && (p.x == 2 || (C::Raw::BITS_PER_PIXEL > 16 && p.x == 1)));
    }
    //@harness prop=C09,C01,C02 kind=bounded tier=quick class=P bound="image <= 3x2" fns=src/image/mod.rs::Image::draw;src/image/mod.rs::Image::bounding_box
    #[kani::proof]
    #[kani::unwind(8)]
    fn c09_draw_probe_native_bpp1_be() { let b: [u8; L] = kani::any(); draw_probe::<BinaryColor, BigEndianLsb0>(&b, true); }
    //@harness prop=C09,C01,C02 kind=bounded tier=quick class=P bound="image <= 3x2"
    #[kani::proof]
    #[kani::unwind(8)]
    fn c09_draw_probe_iter_bpp1_be() { let b: [u8; L] = kani::any(); draw_probe::<BinaryColor, BigEndianLsb0>(&b, false); }
    //@harness prop=C09,C01,C02 kind=bounded tier=quick class=P bound="image <= 3x2"
    #[kani::proof]
    #[kani::unwind(8)]
    fn c09_draw_probe_native_bpp16() { let b: [u8; L] = kani::any(); draw_probe::<Rgb565, LittleEndianMsb0>(&b, true); }
    //@harness prop=C09,C01,C02 kind=bounded tier=quick class=P bound="image <= 3x2"
    #[kani::proof]
    #[kani::unwind(8)]
    fn c09_draw_probe_iter_bpp16() { let b: [u8; L] = kani::any(); draw_probe::<Rgb565, LittleEndianMsb0>(&b, false); }
    //@harness prop=C09,C01 kind=bounded tier=thorough class=P bound="image <= 3x2"
    #[kani::proof]
    #[kani::unwind(8)]
    fn c09_draw_probe_native_bpp4() { let b: [u8; L] = kani::any(); draw_probe::<Gray4, LittleEndianMsb0>(&b, true); }
    //@harness prop=C09,C01 kind=bounded tier=thorough class=P bound="image <= 3x2"
    #[kani::proof]
    #[kani::unwind(8)]
    fn c09_draw_probe_iter_bpp24_be() { let b: [u8; L] = kani::any(); draw_probe::<Rgb888, BigEndianLsb0>(&b, false); }

    /// draw_sub_image guard, SubImage area re-basing (nested twice) and Image::with_center: pure geometry
    /// (loop-free): the area that reaches ImageRaw::draw_sub_image is the composed intersection.
    //@harness prop=C09,C08 kind=contract tier=quick class=P fns=src/image/sub_image.rs::SubImage::new;src/image/sub_image.rs::SubImage::draw_sub_image;src/image/mod.rs::Image::with_center
    #[kani::proof]
    #[kani::unwind(6)]
    fn c09_sub_image_geometry() {
        let buf: [u8; L] = kani::any();
        let img = any_image::<Gray8, LittleEndianMsb0>(&buf);
        let a1 = any_rect(64);
        let a2 = any_rect(64);
        let s1 = img.sub_image(&a1);
        let e1 = sp::inter(&img.bounding_box(), &a1);
        assert!(sp::same_points(&s1.verif_area(), &e1));
        let s2 = s1.sub_image(&a2);
        // nested: a2 is in s1's coordinates; composed area in image coordinates
        let e2_local = sp::inter(&Rectangle::new(Point::zero(), e1.size), &a2);
        assert!(sp::same_points(&s2.verif_area(), &e2_local));
        assert!(s2.size() == s2.verif_area().size);
        // with_center centres the image box on the point
        let c = any_point(1000);
        let im = Image::with_center(&img, c);
        let bb = im.bounding_box();
        assert!(bb.size == img.size());
        if img.size.width > 0 && img.size.height > 0 {
            assert!(bb.center() == c);
        }
        kani::cover!(!sp::is_empty(&e2_local));
    }

    //@harness prop=C09 kind=canary tier=quick class=P expect=fail
    #[kani::proof]
    #[kani::unwind(6)]
    fn c09_canary() {
        let b: [u8; L] = kani::any();
        let img = any_image::<Gray4, LittleEndianMsb0>(&b);
        let p: Point = kani::any();
        assert!(img.pixel(p) == pixel_spec::<Gray4, BigEndianLsb0>(img.data, img.size.width, img.size.height, p));
    }
}
//@end
