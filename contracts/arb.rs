//! Unit `arb`: `kani::Arbitrary` for the geometry value types (needed for symbolic
//! inputs and for `stub_verified` return values) and the shared spec functions.
//! Everything here is specification / harness support; nothing replaces code under test.
//@unit arb
//@crate core

//@attach core/src/geometry/point.rs :: pub struct Point {
#[derive(kani::Arbitrary)]
//@end
//@attach core/src/geometry/size.rs :: pub struct Size {
#[derive(kani::Arbitrary)]
//@end
//@attach core/src/primitives/rectangle/mod.rs :: pub struct Rectangle {
#[derive(kani::Arbitrary)]
//@end
//@attach core/src/geometry/mod.rs :: pub enum AnchorPoint {
#[derive(kani::Arbitrary)]
//@end
//@attach core/src/geometry/mod.rs :: pub enum AnchorX {
#[derive(kani::Arbitrary)]
//@end
//@attach core/src/geometry/mod.rs :: pub enum AnchorY {
#[derive(kani::Arbitrary)]
//@end

//@attach core/src/pixelcolor/binary_color.rs :: pub enum BinaryColor {
#[derive(kani::Arbitrary)]
//@end

//@append core/src/lib.rs
/// Specification functions shared by all contract overlays (mathematical integers are
/// modelled by i64/i128; Kani checks these for overflow too, so a spec cannot wrap silently).
#[cfg(kani)]
#[doc(hidden)]
#[allow(missing_docs, trivial_casts, trivial_numeric_casts, unused_qualifications, dead_code, unused)]
pub mod verif_spec {
    use crate::geometry::{Point, Size};
    use crate::primitives::Rectangle;

    /// |x|, |y| <= b
    pub fn pt_in(p: Point, b: i64) -> bool {
        (p.x as i64) >= -b && (p.x as i64) <= b && (p.y as i64) >= -b && (p.y as i64) <= b
    }
    pub fn sz_in(s: Size, b: i64) -> bool {
        (s.width as i64) <= b && (s.height as i64) <= b
    }
    /// Weakest domain in which the library's rectangle arithmetic is overflow free: both sides fit
    /// i32 (the crate's own `debug_assert!(width >= 0)` in `Point + Size`) and the exclusive
    /// right/bottom edge is representable (`top_left + size` is computed before the `- 1`).
    pub fn rect_ok(r: &Rectangle) -> bool {
        (r.size.width as i64) <= i32::MAX as i64
            && (r.size.height as i64) <= i32::MAX as i64
            && (r.top_left.x as i64) + (r.size.width as i64) <= i32::MAX as i64
            && (r.top_left.y as i64) + (r.size.height as i64) <= i32::MAX as i64
    }
    /// Rectangle with corner coordinates bounded by b and size bounded by b.
    pub fn rect_in(r: &Rectangle, b: i64) -> bool {
        pt_in(r.top_left, b) && sz_in(r.size, b)
    }
    pub fn left(r: &Rectangle) -> i64 { r.top_left.x as i64 }
    pub fn top(r: &Rectangle) -> i64 { r.top_left.y as i64 }
    /// exclusive right edge
    pub fn right(r: &Rectangle) -> i64 { r.top_left.x as i64 + r.size.width as i64 }
    /// exclusive bottom edge
    pub fn bottom(r: &Rectangle) -> i64 { r.top_left.y as i64 + r.size.height as i64 }
    /// The meaning of a rectangle as a set of points: top-left inclusive, top-left + size exclusive.
    pub fn contains(r: &Rectangle, q: Point) -> bool {
        left(r) <= q.x as i64 && (q.x as i64) < right(r) && top(r) <= q.y as i64 && (q.y as i64) < bottom(r)
    }
    pub fn is_empty(r: &Rectangle) -> bool {
        r.size.width == 0 || r.size.height == 0
    }
    pub fn max(a: i64, b: i64) -> i64 { if a > b { a } else { b } }
    pub fn min(a: i64, b: i64) -> i64 { if a < b { a } else { b } }
    /// Row-major index of q inside r (only meaningful when contains(r, q)).
    pub fn row_major_index(r: &Rectangle, q: Point) -> i64 {
        (q.y as i64 - top(r)) * (r.size.width as i64) + (q.x as i64 - left(r))
    }
    /// Closed-form set intersection (empty => Rectangle::zero()); every coordinate is assumed to be in
    /// a domain where the i64 results fit i32/u32 (callers bound their inputs).
    pub fn inter(a: &Rectangle, b: &Rectangle) -> Rectangle {
        let l = max(left(a), left(b));
        let r = min(right(a), right(b));
        let t = max(top(a), top(b));
        let bt = min(bottom(a), bottom(b));
        if is_empty(a) || is_empty(b) || l >= r || t >= bt {
            Rectangle::new(Point::new(0, 0), Size::new(0, 0))
        } else {
            Rectangle::new(Point::new(l as i32, t as i32), Size::new((r - l) as u32, (bt - t) as u32))
        }
    }
    /// a is a subset of b as point sets
    pub fn subset(a: &Rectangle, b: &Rectangle) -> bool {
        is_empty(a) || (left(b) <= left(a) && right(a) <= right(b) && top(b) <= top(a) && bottom(a) <= bottom(b))
    }
    pub fn shift(r: &Rectangle, d: Point) -> Rectangle {
        Rectangle::new(Point::new(r.top_left.x + d.x, r.top_left.y + d.y), r.size)
    }
    pub fn same_points(a: &Rectangle, b: &Rectangle) -> bool {
        (is_empty(a) && is_empty(b)) || (a.top_left.x == b.top_left.x && a.top_left.y == b.top_left.y && a.size.width == b.size.width && a.size.height == b.size.height)
    }
    /// lexicographic (y, x) order: a strictly before b in row-major order
    pub fn before(a: Point, b: Point) -> bool {
        a.y < b.y || (a.y == b.y && a.x < b.x)
    }
}
//@end

//@append core/src/primitives/rectangle/points.rs
#[cfg(kani)]
#[allow(missing_docs, dead_code, unused)]
impl Points {
    /// arbitrary iterator state (for step contracts of iterators built on rectangle::Points in the main crate)
    pub fn verif_any() -> Self {
        Points { x: kani::any::<i32>()..kani::any::<i32>(), y: kani::any::<i32>()..kani::any::<i32>(), x_start: kani::any() }
    }
    /// representation invariant of rectangle::Points (the one its constructor / step contract of unit c16_rect
    /// establish and preserve): current column in [x_start, x.end]; a non-empty row range implies a non-empty column range
    pub fn verif_inv(&self) -> bool {
        self.x_start <= self.x.start && self.x.start <= self.x.end && self.y.start <= self.y.end && (self.y.start == self.y.end || self.x_start < self.x.end)
    }
}
//@end
