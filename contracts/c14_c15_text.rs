//! Unit `c14_c15_text`: glyph selection / cells (C14) and text layout (C15) for MonoTextStyle and Text.
//@unit c14_c15_text
//@crate main
//@needs arb probe

// ------------------------------------------------------------------ MonoFont::glyph, decorations, font data
//@append src/mono_font/mod.rs
#[cfg(kani)]
pub(crate) use mono_text_style::verif_c14s;
#[cfg(kani)]
#[allow(missing_docs, trivial_casts, trivial_numeric_casts, unused_qualifications, dead_code, unused)]
pub(crate) mod verif_c14f {
    use super::*;
    use crate::{geometry::Dimensions, verif_probe::{any_point, sp}};

    /// custom font over a symbolic atlas: cells cw x ch, atlas gw x gh cells, symbolic metrics; the glyph
    /// mapping is a closure that returns a symbolic index for every character
    pub const ATLAS_BYTES: usize = 16;
    pub struct FontParts {
        pub cw: u32,
        pub ch: u32,
        pub gw: u32,
        pub gh: u32,
        pub spacing: u32,
        pub baseline: u32,
        pub strikethrough: DecorationDimensions,
        pub underline: DecorationDimensions,
    }
    pub fn any_parts(max_cell: u32) -> FontParts {
        let p = FontParts {
            cw: kani::any(), ch: kani::any(), gw: kani::any(), gh: kani::any(), spacing: kani::any(), baseline: kani::any(),
            strikethrough: DecorationDimensions::new(kani::any(), kani::any()),
            underline: DecorationDimensions::new(kani::any(), kani::any()),
        };
        kani::assume(p.cw <= max_cell && p.ch <= max_cell && p.gw <= 4 && p.gh <= 4 && p.spacing <= 3 && p.baseline <= 16);
        kani::assume(p.strikethrough.offset <= 16 && p.strikethrough.height <= 4 && p.underline.offset <= 16 && p.underline.height <= 4);
        p
    }
    pub fn atlas_len(p: &FontParts) -> usize {
        (((p.cw * p.gw) as usize + 7) / 8) * (p.ch * p.gh) as usize
    }
    pub fn font<'a>(p: &FontParts, data: &'a [u8], mapping: &'a dyn GlyphMapping) -> MonoFont<'a> {
        MonoFont {
            image: ImageRaw::new(data, Size::new(p.cw * p.gw, p.ch * p.gh)).unwrap(),
            character_size: Size::new(p.cw, p.ch),
            character_spacing: p.spacing,
            baseline: p.baseline,
            strikethrough: p.strikethrough,
            underline: p.underline,
            glyph_mapping: mapping,
        }
    }
    /// font with the given cell metrics and an EMPTY atlas (glyph() then yields a zero sized sub image):
    /// exercises every position computation of the text pipeline without the cost of glyph bitmaps
    pub fn metrics_only_font<'a>(p: &FontParts, mapping: &'a dyn GlyphMapping) -> MonoFont<'a> {
        MonoFont {
            image: ImageRaw::new(&[], Size::zero()).unwrap(),
            character_size: Size::new(p.cw, p.ch),
            character_spacing: p.spacing,
            baseline: p.baseline,
            strikethrough: p.strikethrough,
            underline: p.underline,
            glyph_mapping: mapping,
        }
    }

    /// glyph(c): the cell (i mod glyphs_per_row, i div glyphs_per_row) * character_size, of character
    /// size; it lies completely inside the font image iff i < glyphs_per_row * rows.
    //@harness prop=C14,C08 kind=contract tier=quick class=P bound="atlas data <= 16 bytes (cell <= 8x8, atlas <= 4x4 cells); glyph index unrestricted below 2^20" fns=src/mono_font/mod.rs::MonoFont::glyph
    #[kani::proof]
    #[kani::unwind(4)]
    fn c14_glyph_cell() {
        let p = any_parts(8);
        kani::assume(p.cw >= 1 && p.ch >= 1 && p.gw >= 1 && p.gh >= 1);
        // the atlas may be wider / taller than a whole number of cells: the partial column / row holds no glyph
        let (ex, ey): (u32, u32) = (kani::any(), kani::any());
        kani::assume(ex < p.cw && ey < p.ch);
        let (iw, ih) = (p.cw * p.gw + ex, p.ch * p.gh + ey);
        let data: [u8; ATLAS_BYTES] = kani::any();
        let n = ((iw as usize + 7) / 8) * ih as usize;
        kani::assume(n <= ATLAS_BYTES);
        let idx: usize = kani::any();
        kani::assume(idx < (1 << 20));
        let mapping = move |_c: char| idx;
        let f = MonoFont {
            image: ImageRaw::new(&data[..n], Size::new(iw, ih)).unwrap(),
            character_size: Size::new(p.cw, p.ch),
            character_spacing: p.spacing,
            baseline: p.baseline,
            strikethrough: p.strikethrough,
            underline: p.underline,
            glyph_mapping: &mapping,
        };
        let g = f.glyph('x');
        let cell = g.verif_area();
        let i = idx as u32;
        assert!(cell.size == Size::new(p.cw, p.ch));
        assert!(cell.top_left == Point::new(((i % p.gw) * p.cw) as i32, ((i / p.gw) * p.ch) as i32));
        assert!(sp::subset(&cell, &f.image.bounding_box()) == (i < p.gw * p.gh));
        kani::cover!(i == 5 && p.gw == 3);
        kani::cover!(i == 3 && p.gw == 2 && ex == 2 && p.cw == 4);
    }

    /// decorations cover the full text width at the font's decoration offsets
    //@harness prop=C14,C08 kind=contract tier=quick class=P fns=src/mono_font/mod.rs::DecorationDimensions::get_bounding_box
    #[kani::proof]
    fn c14_decoration_box() {
        let d = DecorationDimensions::new(kani::any(), kani::any());
        kani::assume(d.offset <= 4096 && d.height <= 4096);
        let pos = any_point(4096);
        let w: u32 = kani::any();
        kani::assume(w <= 8192);
        let r = d.get_bounding_box(pos, w);
        assert!(r == Rectangle::new(Point::new(pos.x, pos.y + d.offset as i32), Size::new(w, d.height)));
        kani::cover!(true);
    }

    /// Data lemma per built-in font (all 22 sizes of one character set): every index the mapping can
    /// return has its cell inside the atlas (glyph count <= cells), the replacement index included,
    /// and the strikethrough lies inside the character cell.
    pub fn font_data_ok(f: &MonoFont, glyphs: usize, replacement: usize) -> bool {
        let gpr = f.image.size().width / f.character_size.width;
        let rows = f.image.size().height / f.character_size.height;
        glyphs as u32 <= gpr * rows
            && (replacement as u32) < gpr * rows
            && f.strikethrough.offset + f.strikethrough.height <= f.character_size.height
            && f.baseline < f.character_size.height
            && f.image.size().width % f.character_size.width == 0
    }
    macro_rules! font_module {
        ($m:ident, $map:ident) => {{
            use crate::mono_font::$m::*;
            let glyphs = crate::mono_font::mapping::$map.chars().count();
            let fonts: [&MonoFont; 22] = [
                &FONT_4X6, &FONT_5X7, &FONT_5X8, &FONT_6X9, &FONT_6X10, &FONT_6X12, &FONT_6X13, &FONT_6X13_BOLD, &FONT_6X13_ITALIC, &FONT_7X13,
                &FONT_7X13_BOLD, &FONT_7X13_ITALIC, &FONT_7X14, &FONT_7X14_BOLD, &FONT_8X13, &FONT_8X13_BOLD, &FONT_8X13_ITALIC, &FONT_9X15,
                &FONT_9X15_BOLD, &FONT_9X18, &FONT_9X18_BOLD, &FONT_10X20,
            ];
            let mut k = 0;
            while k < 22 {
                assert!(font_data_ok(fonts[k], glyphs, '?' as usize - ' ' as usize));
                k += 1;
            }
            kani::cover!(glyphs >= 96);
        }};
    }
    //@harness prop=C14 kind=lemma tier=quick class=P bound="22 ASCII font constants (data)" fns=src/mono_font/generated/ascii.rs
    #[kani::proof]
    #[kani::unwind(100)]
    fn c14_font_data_ascii() { font_module!(ascii, ASCII) }
    //@harness prop=C14 kind=lemma tier=quick class=P bound="22 ISO 8859-1 font constants (data)" fns=src/mono_font/generated/iso_8859_1.rs
    #[kani::proof]
    #[kani::unwind(200)]
    fn c14_font_data_iso_8859_1() { font_module!(iso_8859_1, ISO_8859_1) }
    //@harness prop=C14 kind=lemma tier=thorough class=P bound="22 font constants (data)" timeout=3000
    #[kani::proof]
    #[kani::unwind(260)]
    fn c14_font_data_iso_8859_2() { font_module!(iso_8859_2, ISO_8859_2) }
    //@harness prop=C14 kind=lemma tier=thorough class=P bound="22 font constants (data)" timeout=3000
    #[kani::proof]
    #[kani::unwind(260)]
    fn c14_font_data_iso_8859_15() { font_module!(iso_8859_15, ISO_8859_15) }
}
//@end

// ------------------------------------------------------------------ glyph mappings
//@append src/mono_font/mapping.rs
#[cfg(kani)]
#[allow(missing_docs, trivial_casts, trivial_numeric_casts, unused_qualifications, dead_code, unused)]
mod verif_c14m {
    use super::*;

    /// For EVERY char: index(c) < glyph count; a mapped character's index designates that character
    /// (so mapped characters have their own index); an unmapped one gets the replacement index.
    fn mapping_lemma(m: &StrGlyphMapping, n_expected_min: usize) {
        let c: char = kani::any();
        let n = m.chars().count();
        let i = m.index(c);
        assert!(i < n);
        if m.contains(c) {
            assert!(m.chars().nth(i) == Some(c));
        } else {
            assert!(i == '?' as usize - ' ' as usize);
        }
        kani::cover!(m.contains(c) && i > 90);
        kani::cover!(!m.contains(c));
        assert!(n >= n_expected_min);
    }
    /// Range-only mappings have a closed form: index(c) = offset of c in its range, '?' for every other
    /// char. This implies index < glyph count, one index per mapped character and the replacement glyph
    /// for unmapped ones. Complete: every char (the mapping string is a constant; loops are closed by
    /// unwinding assertions).
    //@harness prop=C14 kind=lemma tier=quick class=P bound="complete: every char" timeout=900 fns=src/mono_font/mapping.rs::StrGlyphMapping::index;src/mono_font/mapping.rs::StrGlyphMapping::chars
    #[kani::proof]
    #[kani::unwind(100)]
    fn c14_mapping_ascii() {
        let c: char = kani::any();
        let i = ASCII.index(c);
        assert!(i == if (' '..='\u{7f}').contains(&c) { c as usize - 0x20 } else { '?' as usize - ' ' as usize });
        assert!(i < 96);
        kani::cover!(i == 95);
        kani::cover!(c > '\u{ffff}');
    }
    //@harness prop=C14 kind=lemma tier=thorough class=P bound="complete: every char" timeout=3000
    #[kani::proof]
    #[kani::unwind(200)]
    fn c14_mapping_iso_8859_1_closed_form() {
        let c: char = kani::any();
        let i = ISO_8859_1.index(c);
        let e = if (' '..='\u{7f}').contains(&c) { c as usize - 0x20 } else if ('\u{a0}'..='\u{ff}').contains(&c) { c as usize - 0xa0 + 96 } else { 31 };
        assert!(i == e && i < 192);
        kani::cover!(i == 191);
    }
    //@harness prop=C14 kind=lemma tier=thorough class=P bound="complete: every char" timeout=3000
    #[kani::proof]
    #[kani::unwind(200)]
    fn c14_mapping_iso_8859_1() { mapping_lemma(&ISO_8859_1, 192); }
    //@harness prop=C14 kind=lemma tier=thorough class=P bound="complete: every char" timeout=3000
    #[kani::proof]
    #[kani::unwind(200)]
    fn c14_mapping_iso_8859_15() { mapping_lemma(&ISO_8859_15, 192); }
    //@harness prop=C14 kind=lemma tier=thorough class=P bound="complete: every char" timeout=3000
    #[kani::proof]
    #[kani::unwind(200)]
    fn c14_mapping_jis_x0201() { mapping_lemma(&JIS_X0201, 160); }
}
//@end

// ------------------------------------------------------------------ MonoTextStyle
//@append src/mono_font/mono_text_style.rs
#[cfg(kani)]
#[allow(missing_docs, trivial_casts, trivial_numeric_casts, unused_qualifications, dead_code, unused)]
pub(crate) mod verif_c14s {
    use super::*;
    use crate::{
        geometry::Dimensions,
        image::GetPixel,
        mono_font::verif_c14f::{any_parts, atlas_len, font, metrics_only_font, FontParts, ATLAS_BYTES},
        mono_font::DecorationDimensions,
        pixelcolor::Gray8,
        verif_probe::{any_point, any_rect, everything, sp, ProbeNative, ProbeState},
    };

    pub fn any_deco() -> DecorationColor<Gray8> {
        match kani::any::<u8>() % 3 {
            0 => DecorationColor::None,
            1 => DecorationColor::TextColor,
            _ => DecorationColor::Custom(Gray8::new(kani::any())),
        }
    }
    pub fn any_baseline() -> Baseline {
        match kani::any::<u8>() % 4 {
            0 => Baseline::Top,
            1 => Baseline::Bottom,
            2 => Baseline::Middle,
            _ => Baseline::Alphabetic,
        }
    }
    pub fn any_mono_style<'a>(f: &'a MonoFont<'a>) -> MonoTextStyle<'a, Gray8> {
        MonoTextStyle {
            text_color: if kani::any() { Some(Gray8::new(kani::any())) } else { None },
            background_color: if kani::any() { Some(Gray8::new(kani::any())) } else { None },
            underline_color: any_deco(),
            strikethrough_color: any_deco(),
            font: f,
        }
    }
    pub fn baseline_spec(p: &FontParts, b: Baseline) -> i32 {
        match b {
            Baseline::Top => 0,
            Baseline::Bottom => p.ch.saturating_sub(1) as i32,
            Baseline::Middle => (p.ch.saturating_sub(1) / 2) as i32,
            Baseline::Alphabetic => p.baseline as i32,
        }
    }

    /// line_elements: the i-th character cell starts at x offset i * (character width + spacing), a
    /// spacing element follows every character but the last, then Done at the end of the last cell
    //@harness prop=C14,C15 kind=bounded tier=quick class=P bound="string \"abc\" (3 characters), symbolic metrics" fns=src/mono_font/mono_text_style.rs::MonoTextStyle::line_elements
    #[kani::proof]
    #[kani::unwind(8)]
    fn c14_line_elements_positions() {
        let p = any_parts(64);
        let mapping = |_c: char| 0usize;
        let f = metrics_only_font(&p, &mapping);
        let style = any_mono_style(&f);
        let pos = any_point(1024);
        let adv = (p.cw + p.spacing) as i32;
        let mut it = style.line_elements(pos, "abc");
        assert!(it.next() == Some((pos, LineElement::Char('a'))));
        assert!(it.next() == Some((pos + Point::new(p.cw as i32, 0), LineElement::Spacing)));
        assert!(it.next() == Some((pos + Point::new(adv, 0), LineElement::Char('b'))));
        assert!(it.next() == Some((pos + Point::new(adv + p.cw as i32, 0), LineElement::Spacing)));
        assert!(it.next() == Some((pos + Point::new(2 * adv, 0), LineElement::Char('c'))));
        assert!(it.next() == Some((pos + Point::new(2 * adv + p.cw as i32, 0), LineElement::Done)));
        kani::cover!(p.spacing == 2);
    }

    /// draw_string returns the position measure_string predicts (all four colour modes, decorations,
    /// baselines; symbolic metrics; glyph bitmaps are irrelevant here) and the bounding box
    /// measure_string reports starts at the baseline-shifted position.
    fn returns_measured(style: MonoTextStyle<Gray8>, p: &FontParts, text: &str) {
        let pos = any_point(1024);
        let b = any_baseline();
        let n = text.len() as u32;
        let mut t = ProbeNative::<Gray8>(ProbeState::new(any_point(2048), any_rect(1024), everything()));
        let next = style.draw_string(text, pos, b, &mut t).unwrap();
        let m = style.measure_string(text, pos, b);
        assert!(next == m.next_position);
        // documented width and baseline shift
        let w = (n * (p.cw + p.spacing)).saturating_sub(p.spacing);
        assert!(m.next_position == pos + Point::new(w as i32, 0));
        assert!(m.bounding_box.top_left == Point::new(pos.x, pos.y - baseline_spec(p, b)));
        assert!(m.bounding_box.size.width == w);
        assert!(style.line_height() == p.ch);
        kani::cover!(n == 2 && p.cw > 0);
    }
    /// transparent colours: holds for fonts without character spacing ...
    //@harness prop=C15,C08 kind=bounded tier=quick class=P bound="transparent text/background colours; string \"ab\"; symbolic font metrics (cell <= 64), character spacing 0" fns=src/mono_font/mono_text_style.rs::MonoTextStyle::draw_string;src/mono_font/mono_text_style.rs::MonoTextStyle::measure_string;src/mono_font/mono_text_style.rs::MonoTextStyle::baseline_offset
    #[kani::proof]
    #[kani::unwind(8)]
    fn c15_draw_returns_measured_position_transparent() {
        let mut p = any_parts(64);
        p.spacing = 0;
        let mapping = |_c: char| 0usize;
        let f = metrics_only_font(&p, &mapping);
        let mut style = any_mono_style(&f);
        style.text_color = None;
        style.background_color = None;
        returns_measured(style, &p, "ab");
    }
    /// ... and is the known finding C15-F1 for fonts with character spacing (the existing unit test
    /// transparent_text_dimensions_one_line_spaced pins the deviating behaviour, so it is not repaired)
    //@harness prop=C15 kind=witness tier=quick class=P expect=fail finding=C15-F1 bound="transparent text/background colours; string \"ab\"; character spacing 1..=3"
    #[kani::proof]
    #[kani::unwind(8)]
    fn c15_witness_transparent_spaced_next_position() {
        let p = any_parts(64);
        kani::assume(p.spacing >= 1);
        let mapping = |_c: char| 0usize;
        let f = metrics_only_font(&p, &mapping);
        let mut style = any_mono_style(&f);
        style.text_color = None;
        style.background_color = None;
        returns_measured(style, &p, "ab");
    }
    //@harness prop=C15,C08 kind=bounded tier=quick class=P bound="text and/or background colour set; string \"ab\"; symbolic font metrics (cell <= 64, spacing <= 3)" timeout=900
    #[kani::proof]
    #[kani::unwind(8)]
    fn c15_draw_returns_measured_position_colored() {
        let p = any_parts(64);
        let mapping = |_c: char| 0usize;
        let f = metrics_only_font(&p, &mapping);
        let style = any_mono_style(&f);
        kani::assume(style.text_color.is_some() || style.background_color.is_some());
        returns_measured(style, &p, "ab");
    }

    /// Everything drawn by draw_string lies inside measure_string's box, except decorations the font
    /// places below/above it (C02 states containment for text; see DESIGN for the decoration caveat):
    /// underline and strikethrough rectangles are exactly get_bounding_box(position, text width).
    //@harness prop=C14,C02,C08 kind=contract tier=quick class=P fns=src/mono_font/mono_text_style.rs::MonoTextStyle::draw_decorations
    #[kani::proof]
    fn c14_draw_decorations() {
        let p = any_parts(64);
        let mapping = |_c: char| 0usize;
        let f = metrics_only_font(&p, &mapping);
        let style = any_mono_style(&f);
        let pos = any_point(1024);
        let w: u32 = kani::any();
        kani::assume(w <= 4096);
        let q = any_point(8192);
        let mut t = ProbeNative::<Gray8>(ProbeState::new(q, any_rect(1024), everything()));
        style.draw_decorations(w, pos, &mut t).unwrap();
        let st = Rectangle::new(pos + Point::new(0, p.strikethrough.offset as i32), Size::new(w, p.strikethrough.height));
        let un = Rectangle::new(pos + Point::new(0, p.underline.offset as i32), Size::new(w, p.underline.height));
        let col = |d: DecorationColor<Gray8>| match d { DecorationColor::None => None, DecorationColor::TextColor => style.text_color, DecorationColor::Custom(c) => Some(c) };
        let expected = if sp::contains(&un, q) && col(style.underline_color).is_some() {
            col(style.underline_color)
        } else if sp::contains(&st, q) {
            col(style.strikethrough_color)
        } else {
            None
        };
        assert!(t.0.last == expected);
        kani::cover!(expected.is_some());
    }

    /// Spacing between characters: filled with the background colour if one is set (all four colour
    /// modes), otherwise untouched; nothing else is painted by a font whose atlas is empty.
    //@harness prop=C14 kind=bounded tier=quick class=P bound="text \"ab\", symbolic metrics (cell <= 16, spacing <= 3), empty atlas" timeout=900 fns=src/mono_font/mono_text_style.rs::MonoTextStyle::draw_string_binary;src/mono_font/draw_target.rs::MonoFontDrawTarget::fill_solid
    #[kani::proof]
    #[kani::unwind(8)]
    fn c14_spacing_gets_background_only() {
        let p = any_parts(16);
        let mapping = |_c: char| 0usize;
        let f = metrics_only_font(&p, &mapping);
        let mut style = any_mono_style(&f);
        style.underline_color = DecorationColor::None;
        style.strikethrough_color = DecorationColor::None;
        let pos = any_point(256);
        let q = any_point(1024);
        let mut t = ProbeNative::<Gray8>(ProbeState::new(q, any_rect(64), everything()));
        style.draw_string("ab", pos, Baseline::Top, &mut t).unwrap();
        let gap = Rectangle::new(pos + Point::new(p.cw as i32, 0), Size::new(p.spacing, p.ch));
        let expected = if sp::contains(&gap, q) && (style.text_color.is_some() || style.background_color.is_some()) { style.background_color } else { None };
        assert!(t.0.last == expected);
        kani::cover!(expected.is_some() && style.text_color.is_none());
        kani::cover!(expected.is_some() && style.text_color.is_some());
        kani::cover!(sp::contains(&gap, q) && expected.is_none());
    }

    /// C02 for text: everything draw_string paints (character cells incl. background, spacing,
    /// underline, strikethrough) lies inside the box measure_string reports, for every colour /
    /// decoration combination and symbolic font metrics -- provided the font's strikethrough lies
    /// inside the character cell (data lemma c14_font_data_* for the built-in fonts).
    //@harness prop=C02 kind=bounded tier=quick class=P bound="text \"ab\", symbolic metrics (cell <= 16, spacing <= 3, decoration offsets <= 16)" timeout=900 fns=src/mono_font/mono_text_style.rs::MonoTextStyle::measure_string;src/mono_font/mono_text_style.rs::MonoTextStyle::draw_string
    #[kani::proof]
    #[kani::unwind(8)]
    fn c02_text_paints_inside_measured_box() {
        let p = any_parts(16);
        kani::assume(p.strikethrough.offset + p.strikethrough.height <= p.ch);
        let mapping = |_c: char| 0usize;
        let f = metrics_only_font(&p, &mapping);
        let style = any_mono_style(&f);
        // known finding C15-F1 (transparent colours with character spacing: decorations too wide) is excluded here
        kani::assume(!(style.text_color.is_none() && style.background_color.is_none() && p.spacing > 0));
        let pos = any_point(256);
        let b = any_baseline();
        let m = style.measure_string("ab", pos, b);
        let mut t = ProbeNative::<Gray8>(ProbeState::new(any_point(1024), any_rect(64), m.bounding_box));
        style.draw_string("ab", pos, b, &mut t).unwrap();
        assert!(!t.0.escaped);
        kani::cover!(t.0.calls >= 3);
        kani::cover!(p.underline.offset + p.underline.height < p.ch && p.spacing > 0 && style.background_color.is_some());
    }

    /// One glyph through the whole pipeline (glyph() -> SubImage -> Image::draw -> MonoFontDrawTarget ->
    /// target): 'on' pixels of the designated glyph get the text colour, 'off' pixels the background
    /// colour if one is set, everything else is untouched. Symbolic atlas bytes and glyph index.
    //@harness prop=C14,C01 kind=bounded tier=quick class=P bound="one character, cell 3x2, atlas 2x2 cells (4 glyphs), position (0,0)" timeout=1200 unwindset="rectangle::Points as core::iter::Iterator>::next=3" fns=src/mono_font/mono_text_style.rs::MonoTextStyle::draw_string_binary;src/mono_font/draw_target.rs::MonoFontDrawTarget
    #[kani::proof]
    #[kani::unwind(9)]
    fn c14_one_glyph_pipeline() {
        let p = FontParts { cw: 3, ch: 2, gw: 2, gh: 2, spacing: 0, baseline: 1, strikethrough: DecorationDimensions::new(0, 0), underline: DecorationDimensions::new(0, 0) };
        let data: [u8; 4] = kani::any();
        let idx: usize = kani::any();
        kani::assume(idx < 4);
        let mapping = move |_c: char| idx;
        let f = font(&p, &data, &mapping);
        let style = MonoTextStyle {
            text_color: if kani::any() { Some(Gray8::new(200)) } else { None },
            background_color: if kani::any() { Some(Gray8::new(50)) } else { None },
            underline_color: DecorationColor::None,
            strikethrough_color: DecorationColor::None,
            font: &f,
        };
        let q = any_point(8);
        let mut t = ProbeNative::<Gray8>(ProbeState::new(q, any_rect(64), Rectangle::new(Point::zero(), Size::new(3, 2))));
        let next = style.draw_string("x", Point::zero(), Baseline::Top, &mut t).unwrap();
        assert!(next == Point::new(3, 0));
        assert!(!t.0.escaped);
        let cell = Point::new(((idx as i32) % 2) * 3, ((idx as i32) / 2) * 2);
        let expected = match f.image.pixel(cell + q) {
            Some(bit) if q.x >= 0 && q.x < 3 && q.y >= 0 && q.y < 2 => if bit.is_on() { style.text_color } else { style.background_color },
            _ => None,
        };
        assert!(t.0.last == expected);
        kani::cover!(expected == Some(Gray8::new(200)) && idx == 3);
        kani::cover!(expected == Some(Gray8::new(50)));
    }
}
//@end

// ------------------------------------------------------------------ Text
//@append src/text/text.rs
#[cfg(kani)]
#[allow(missing_docs, trivial_casts, trivial_numeric_casts, unused_qualifications, dead_code, unused)]
mod verif_c15 {
    use super::*;
    use crate::{
        mono_font::{
            verif_c14f::{any_parts, metrics_only_font, FontParts},
            MonoTextStyle,
        },
        mono_font::verif_c14s::{any_baseline, baseline_spec},
        pixelcolor::Gray8,
        text::{DecorationColor, LineHeight},
        verif_probe::{any_point, any_rect, everything, sp, ProbeNative, ProbeState},
    };

    fn any_alignment() -> Alignment {
        match kani::any::<u8>() % 3 { 0 => Alignment::Left, 1 => Alignment::Center, _ => Alignment::Right }
    }
    /// style that paints every cell: background colour set (cells and spacing are filled) + underline
    fn box_style<'a>(f: &'a crate::mono_font::MonoFont<'a>) -> MonoTextStyle<'a, Gray8> {
        let mut s = MonoTextStyle::new(f, Gray8::new(200));
        s.background_color = Some(Gray8::new(50));
        s.underline_color = DecorationColor::Custom(Gray8::new(100));
        s
    }

    /// LineHeight::to_absolute
    //@harness prop=C15,C08 kind=contract tier=quick class=P fns=src/text/mod.rs::LineHeight::to_absolute
    #[kani::proof]
    fn c15_line_height_to_absolute() {
        let base: u32 = kani::any();
        let v: u32 = kani::any();
        kani::assume(base <= 1024 && v <= 1024);
        assert!(LineHeight::Pixels(v).to_absolute(base) == v);
        assert!(LineHeight::Percent(v).to_absolute(base) as u64 == base as u64 * v as u64 / 100);
        assert!(LineHeight::default().to_absolute(base) == base);
        kani::cover!(v == 400);
    }

    /// Single line: alignment places the box so that it starts at (Left), ends at (Right) or is centred
    /// within half a pixel on (Center) the x position; the baseline shifts the line by the documented
    /// offset; draw() returns what the renderer returns for the line.
    //@harness prop=C15,C02,C08 kind=bounded tier=quick class=P bound="text \"ab\" (one line), symbolic metrics/alignment/baseline/position" timeout=900 fns=src/text/text.rs::Text::lines;src/text/text.rs::Text::bounding_box;src/text/text.rs::Text::draw
    #[kani::proof]
    #[kani::unwind(8)]
    fn c15_alignment_and_baseline_single_line() {
        let p = any_parts(32);
        kani::assume(p.cw >= 1 && p.ch >= 1);
        let mapping = |_c: char| 0usize;
        let f = metrics_only_font(&p, &mapping);
        let style = MonoTextStyle::new(&f, Gray8::new(200));
        let pos = any_point(1024);
        let ts = TextStyleBuilder::new().alignment(any_alignment()).baseline(any_baseline()).build();
        let text = Text::with_text_style("ab", pos, style, ts);
        let bb = text.bounding_box();
        let w = (2 * (p.cw + p.spacing) - p.spacing) as i64;
        assert!(bb.size.width as i64 == w && bb.size.height == p.ch);
        assert!(sp::top(&bb) == pos.y as i64 - baseline_spec(&p, ts.baseline) as i64);
        match ts.alignment {
            Alignment::Left => assert!(sp::left(&bb) == pos.x as i64),
            Alignment::Right => assert!(sp::right(&bb) - 1 == pos.x as i64),
            Alignment::Center => {
                let c2 = sp::left(&bb) + sp::right(&bb) - 1;
                assert!(c2 == 2 * pos.x as i64 || c2 == 2 * pos.x as i64 + 1);
            }
        }
        let mut t = ProbeNative::<Gray8>(ProbeState::new(any_point(2048), any_rect(1024), bb));
        let next = text.draw(&mut t).unwrap();
        assert!(next == Point::new(sp::right(&bb) as i32, pos.y));
        assert!(!t.0.escaped);
        kani::cover!(ts.alignment == Alignment::Center && w % 2 == 0);
    }

    /// "\r\n" behaves exactly like "\n", and a text with a line break equals its lines drawn separately
    /// line_height apart: same pixel map at an arbitrary probe point, same bounding box, same result.
    //@harness prop=C15 kind=bounded tier=quick class=P bound="texts \"ab\\r\\nc\" / \"ab\\nc\" / lines \"ab\", \"c\"; symbolic metrics, alignment, baseline, line height" timeout=1500 fns=src/text/text.rs::Text::lines;src/text/text.rs::Text::line_height
    #[kani::proof]
    #[kani::unwind(10)]
    fn c15_crlf_equals_lf_equals_separate_lines() {
        let p = any_parts(16);
        kani::assume(p.cw >= 1 && p.ch >= 1);
        let mapping = |_c: char| 0usize;
        let f = metrics_only_font(&p, &mapping);
        let style = box_style(&f);
        let pos = any_point(256);
        let lh: u32 = kani::any();
        kani::assume(lh <= 64);
        let ts = TextStyleBuilder::new().alignment(any_alignment()).baseline(any_baseline()).line_height(LineHeight::Pixels(lh)).build();
        let q = any_point(1024);
        let mk = || ProbeNative::<Gray8>(ProbeState::new(q, Rectangle::new(Point::zero(), Size::new(64, 64)), everything()));
        let (mut a, mut b, mut c) = (mk(), mk(), mk());
        let ta = Text::with_text_style("ab\r\nc", pos, style, ts);
        let tb = Text::with_text_style("ab\nc", pos, style, ts);
        let ra = ta.draw(&mut a).unwrap();
        let rb = tb.draw(&mut b).unwrap();
        assert!(a.0.last == b.0.last && ra == rb);
        assert!(ta.bounding_box() == tb.bounding_box());
        // the lines drawn separately
        Text::with_text_style("ab", pos, style, ts).draw(&mut c).unwrap();
        let rc = Text::with_text_style("c", pos + Point::new(0, lh as i32), style, ts).draw(&mut c).unwrap();
        assert!(c.0.last == b.0.last && rc == rb);
        kani::cover!(b.0.last == Some(Gray8::new(50)) && ts.alignment == Alignment::Right);
        kani::cover!(b.0.last == Some(Gray8::new(100)));
    }

    /// drawing s1 and then s2 at the returned position equals drawing s1 + s2 (font without spacing)
    //@harness prop=C15 kind=bounded tier=quick class=P bound="\"a\" then \"b\" versus \"ab\"; symbolic metrics, spacing 0" timeout=900
    #[kani::proof]
    #[kani::unwind(8)]
    fn c15_concatenation() {
        let mut p = any_parts(16);
        p.spacing = 0;
        let mapping = |_c: char| 0usize;
        let f = metrics_only_font(&p, &mapping);
        let style = box_style(&f);
        let pos = any_point(256);
        let b = any_baseline();
        let q = any_point(1024);
        let mk = || ProbeNative::<Gray8>(ProbeState::new(q, Rectangle::new(Point::zero(), Size::new(64, 64)), everything()));
        let (mut x, mut y) = (mk(), mk());
        let n1 = Text::with_baseline("a", pos, style, b).draw(&mut x).unwrap();
        let n2 = Text::with_baseline("b", n1, style, b).draw(&mut x).unwrap();
        let n = Text::with_baseline("ab", pos, style, b).draw(&mut y).unwrap();
        assert!(n == n2 && x.0.last == y.0.last);
        kani::cover!(y.0.last.is_some());
    }

    /// Text::translate moves the position only; the returned next position moves with it (C07)
    //@harness prop=C15,C07 kind=bounded tier=quick class=P bound="text \"ab\"" timeout=900 fns=src/text/text.rs::Text::translate
    #[kani::proof]
    #[kani::unwind(8)]
    fn c15_text_translate() {
        let p = any_parts(16);
        let mapping = |_c: char| 0usize;
        let f = metrics_only_font(&p, &mapping);
        let style = box_style(&f);
        let pos = any_point(256);
        let d = any_point(256);
        let ts = TextStyleBuilder::new().alignment(any_alignment()).baseline(any_baseline()).build();
        let t0 = Text::with_text_style("ab", pos, style, ts);
        let t1 = t0.translate(d);
        let mut t2 = t0;
        t2.translate_mut(d);
        assert!(t1 == t2 && t1.position == pos + d && t1.text_style == t0.text_style && t1.character_style == t0.character_style);
        let q = any_point(1024);
        let mut a = ProbeNative::<Gray8>(ProbeState::new(q, any_rect(64), everything()));
        let mut b = ProbeNative::<Gray8>(ProbeState::new(q + d, any_rect(64), everything()));
        let ra = t0.draw(&mut a).unwrap();
        let rb = t1.draw(&mut b).unwrap();
        assert!(rb == ra + d && a.0.last == b.0.last);
        assert!(t1.bounding_box() == t0.bounding_box().translate(d));
        kani::cover!(a.0.last.is_some());
    }

    //@harness prop=C15 kind=canary tier=quick class=P expect=fail
    #[kani::proof]
    #[kani::unwind(8)]
    fn c15_canary() {
        let p = any_parts(16);
        let mapping = |_c: char| 0usize;
        let f = metrics_only_font(&p, &mapping);
        let style = MonoTextStyle::new(&f, Gray8::new(1));
        let pos = any_point(256);
        let t = Text::with_alignment("ab", pos, style, Alignment::Center);
        assert!(t.bounding_box().top_left.x == pos.x);
    }
}
//@end
