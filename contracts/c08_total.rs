//! Unit `c08_total`: rendering kernels are total (no overflow / panic) on display-scale inputs
//! (property C08). The obligations are Kani's automatic checks (arithmetic overflow, division by zero,
//! index out of bounds, unwrap on None, debug_assert, unreachable) over symbolic display-scale inputs:
//! coordinates +-1024, sizes <= 1024, stroke widths <= 128.
//@unit c08_total
//@crate main
//@needs arb probe

//@append src/primitives/line/thick_points.rs
#[cfg(kani)]
#[allow(missing_docs, trivial_casts, trivial_numeric_casts, unused_qualifications, dead_code, unused)]
mod verif_c08t {
    use super::*;
    use crate::verif_probe::any_point;

    /// thick line set-up at display scale: thickness threshold = (2 t)^2 * |delta|^2 in i32
    //@harness prop=C08 kind=witness tier=quick class=P expect=fail finding=C08-F4 fns=src/primitives/line/thick_points.rs::ParallelsIterator::new
    #[kani::proof]
    #[kani::unwind(4)]
    fn c08_thick_line_threshold_display_scale() {
        // the listed input: a 30 px wide horizontal line of length 800
        let line = Line::new(Point::new(0, 0), Point::new(800, 0));
        let it = ParallelsIterator::new(&line, 30, StrokeOffset::None);
    }
    /// ... and is overflow free on the part of the display-scale domain where (2 t)^2 * |delta|^2 < 2^31:
    /// stroke width <= 11 for every line with 0 <= dx, dy <= 1023 (first quadrant: the deltas are built from
    /// masked bytes so that the multipliers see constant zero bits; the products do not depend on the signs)
    //@harness prop=C08,C17 kind=lemma tier=quick class=P bound="stroke width <= 11, 0 <= dx, dy <= 1023, start within +-1024" timeout=900 kani="--no-assertion-reach-checks" fns=src/primitives/line/thick_points.rs::ParallelsIterator::new
    #[kani::proof]
    #[kani::unwind(4)]
    fn c08_thick_line_setup_first_quadrant() {
        let start = any_point(1024);
        let d = Point::new((kani::any::<u16>() & 1023) as i32, (kani::any::<u16>() & 1023) as i32);
        let line = Line::new(start, start + d);
        let t = (kani::any::<u8>() & 15) as i32;
        kani::assume(t <= 11);
        let it = ParallelsIterator::new(&line, t, StrokeOffset::None);
        kani::cover!(t == 11 && d.x == 1023 && d.y == 1023);
    }
    /// ... it is overflow free when (2 t)^2 * |delta|^2 < 2^31, e.g. stroke width <= 15 and |dx|,|dy| <= 1024 (all quadrants; did not finish in 15 min)
    //@harness prop=C08 kind=lemma tier=thorough class=P bound="stroke width <= 15 at |dx|, |dy| <= 1024" timeout=3000 fns=src/primitives/line/thick_points.rs::ParallelsIterator::new
    #[kani::proof]
    fn c08_thick_line_threshold_safe_domain() {
        let start = any_point(1024);
        let d = any_point(1024);
        let line = Line::new(start, start + d);
        let t: i32 = kani::any();
        kani::assume(t >= 0 && t <= 15);
        let it = ParallelsIterator::new(&line, t, StrokeOffset::None);
        kani::cover!(t == 15 && d.x == 1024 && d.y == -1024);
    }
}
//@end

//@append src/primitives/line/intersection_params.rs
#[cfg(kani)]
#[allow(missing_docs, trivial_casts, trivial_numeric_casts, unused_qualifications, dead_code, unused)]
mod verif_c08j {
    use super::*;
    use crate::verif_probe::any_point;

    /// join corner of two edge lines at display scale: determinants of origin distances and normals
    //@harness prop=C08 kind=witness tier=quick class=P expect=fail finding=C08-F3 fns=src/primitives/line/intersection_params.rs::IntersectionParams::from_lines;src/primitives/line/intersection_params.rs::IntersectionParams::intersection
    #[kani::proof]
    fn c08_join_intersection_display_scale() {
        let l1 = Line::new(any_point(1024), any_point(1024));
        let l2 = Line::new(any_point(1024), any_point(1024));
        let p = IntersectionParams::from_lines(&l1, &l2);
        let _ = p.intersection();
        let _ = p.nearly_colinear_has_error();
    }
    /// ... it is overflow free for coordinates within +-256
    //@harness prop=C08 kind=lemma tier=quick class=P bound="line end points within +-256" fns=src/primitives/line/intersection_params.rs::IntersectionParams::intersection
    #[kani::proof]
    fn c08_join_intersection_safe_domain() {
        let l1 = Line::new(any_point(256), any_point(256));
        let l2 = Line::new(any_point(256), any_point(256));
        let p = IntersectionParams::from_lines(&l1, &l2);
        let _ = p.intersection();
        let _ = p.nearly_colinear_has_error();
        kani::cover!(true);
    }
}
//@end

//@append src/primitives/mod.rs
#[cfg(kani)]
#[allow(missing_docs, trivial_casts, trivial_numeric_casts, unused_qualifications, dead_code, unused)]
mod verif_c08 {
    use super::*;
    use super::common::{LineSide, LinearEquation};
    use crate::{
        geometry::{Dimensions, PointExt, Size},
        transform::Transform,
        verif_probe::{any_point, any_rect, sp},
    };

    fn any_size(m: u32) -> Size {
        let s: Size = kani::any();
        kani::assume(s.width <= m && s.height <= m);
        s
    }

    /// circle / ellipse kernels (constructors, centre, contains, offset by a stroke width up to 128,
    /// styled bounding box) for diameters and axes up to 1024 + 2 * 128 and probe points within +-4096
    //@harness prop=C08 kind=lemma tier=quick class=P fns=src/primitives/circle/mod.rs::Circle;src/primitives/ellipse/mod.rs::Ellipse;src/primitives/ellipse/mod.rs::EllipseContains
    #[kani::proof]
    fn c08_circle_ellipse_kernels() {
        let q = any_point(4096);
        let n: i32 = kani::any();
        kani::assume(-128 <= n && n <= 128);
        let d: u32 = kani::any();
        kani::assume(d <= 1024);
        let c = Circle::new(any_point(1024), d);
        let _ = (c.contains(q), c.center(), c.bounding_box(), Circle::with_center(q, d));
        let c2 = c.offset(n);
        let _ = (c2.contains(q), c2.bounding_box());
        let e = Ellipse::new(any_point(1024), any_size(1024));
        let _ = (e.contains(q), e.center(), e.bounding_box(), Ellipse::with_center(q, e.size));
        let e2 = e.offset(n);
        let _ = (e2.contains(q), e2.bounding_box());
        kani::cover!(e2.contains(q) && e2.size.width > 1200);
    }

    /// rectangle / triangle / line queries and linear equations at display scale
    //@harness prop=C08 kind=lemma tier=quick class=P fns=src/primitives/triangle/mod.rs::Triangle::area_doubled;src/primitives/triangle/mod.rs::Triangle::bounding_box;src/primitives/common/linear_equation.rs::LinearEquation;src/geometry/mod.rs::PointExt
    #[kani::proof]
    fn c08_polygon_kernels() {
        let q = any_point(4096);
        let t = Triangle::new(any_point(1024), any_point(1024), any_point(1024));
        let _ = (t.bounding_box(), t.area_doubled(), t.translate(any_point(1024)));
        let l = Line::new(any_point(1024), any_point(1024));
        let _ = (l.bounding_box(), l.delta(), l.midpoint());
        let le = LinearEquation::from_line(&l);
        let _ = (le.distance(any_point(1024)), le.check_side(any_point(1024), LineSide::Left));
        let r = any_rect(1024);
        let _ = (r.contains(q), r.center(), r.bottom_right(), r.offset(128), r.offset(-128), r.intersection(&any_rect(1024)), r.envelope(&any_rect(1024)));
        let (a, b) = (any_point(2048), any_point(2048));
        let _ = (a.dot_product(b), a.determinant(b), a.length_squared(), a.rotate_90());
        kani::cover!(true);
    }

    /// rounded rectangle set-up and contains at display scale: radii up to 1024 (larger than the
    /// rectangle, so they are confined), sizes up to 1024
    //@harness prop=C08 kind=lemma tier=quick class=P timeout=900 fns=src/primitives/rounded_rectangle/corner_radii.rs::CornerRadii::confine;src/primitives/rounded_rectangle/ellipse_quadrant.rs::EllipseQuadrant::new;src/primitives/rounded_rectangle/mod.rs::RoundedRectangleContains
    #[kani::proof]
    fn c08_rounded_rectangle_kernels() {
        let rect = Rectangle::new(any_point(1024), any_size(1024));
        let corners = CornerRadii { top_left: any_size(1024), top_right: any_size(1024), bottom_right: any_size(1024), bottom_left: any_size(1024) };
        let rr = RoundedRectangle::new(rect, corners);
        let _ = rr.confine_radii();
        let _ = rr.contains(any_point(4096));
        let _ = rr.offset(128);
        let _ = rr.offset(-128);
        kani::cover!(true);
    }
}
//@end

//@append src/primitives/rectangle/styled.rs
#[cfg(kani)]
#[allow(missing_docs, trivial_casts, trivial_numeric_casts, unused_qualifications, dead_code, unused)]
mod verif_c08d {
    use super::*;
    use crate::{
        pixelcolor::Gray8,
        primitives::{Primitive, StrokeAlignment},
        verif_probe::{any_point, everything, sp, ProbeNative, ProbeState},
        Drawable,
    };

    /// Dotted rectangle strokes (the only shape that implements StrokeStyle::Dotted) are total on small and
    /// degenerate rectangles, including strokes wider than the shape and 1 pixel wide / high stroke areas
    /// (no division by zero, no overflow), and paint nothing outside the styled bounding box (C02).
    //@harness prop=C08,C02 kind=bounded tier=thorough class=P bound="rectangle 0..=3 x 0..=3 at (0,0), stroke width 0..=2 (square dots), three alignments (the dot positions are float computations; ran out of memory at 14 GB after 6 min)" timeout=3000 kani="--no-assertion-reach-checks" fns=src/primitives/rectangle/styled.rs::Rectangle::draw_styled;src/primitives/rectangle/styled.rs::draw_dotted_rectangle_border_in_clockwise_order;src/primitives/rectangle/styled.rs::dot_positions_in_clockwise_order
    #[kani::proof]
    #[kani::unwind(6)]
    fn c08_dotted_rectangle_total() {
        let r = Rectangle::new(Point::new(0, 0), Size::new((kani::any::<u8>() & 3) as u32, (kani::any::<u8>() & 3) as u32));
        let mut style = PrimitiveStyle::<Gray8>::new();
        style.stroke_color = Some(Gray8::new(200));
        style.fill_color = if kani::any() { Some(Gray8::new(50)) } else { None };
        style.stroke_width = (kani::any::<u8>() & 3) as u32;
        kani::assume(style.stroke_width <= 2);
        style.stroke_alignment = match kani::any::<u8>() % 3 { 0 => StrokeAlignment::Inside, 1 => StrokeAlignment::Center, _ => StrokeAlignment::Outside };
        style.stroke_style = StrokeStyle::Dotted;
        let styled = r.into_styled(style);
        let q = any_point(2048);
        let mut t = ProbeNative::<Gray8>(ProbeState::new(q, everything(), styled.bounding_box()));
        let res = styled.draw(&mut t);
        assert!(res.is_ok());
        assert!(!t.0.escaped);
        kani::cover!(t.0.last == Some(Gray8::new(200)));
        kani::cover!(style.stroke_width == 2 && r.size.width == 1);
    }

    /// Degenerate dotted strokes: a stroke area that is one pixel (or less) wide or high has no room for a dot;
    /// draw() then paints only the fill, returns Ok and does not reach the dot spacing arithmetic (which would
    /// divide by the zero dot size). All positions and the other dimension up to 1024, stroke widths 1..=128.
    //@harness prop=C08,C02 kind=lemma tier=quick class=P bound="stroke area width or height <= 1" timeout=900 kani="--no-assertion-reach-checks" fns=src/primitives/rectangle/styled.rs::Rectangle::draw_styled
    #[kani::proof]
    #[kani::unwind(3)]
    fn c08_dotted_rectangle_thin_is_total() {
        let thin: u32 = if kani::any() { 1 } else { 0 };
        let other = (kani::any::<u16>() & 1023) as u32;
        let size = if kani::any() { Size::new(thin, other) } else { Size::new(other, thin) };
        let r = Rectangle::new(any_point(1024), size);
        let mut style = PrimitiveStyle::<Gray8>::new();
        style.stroke_color = Some(Gray8::new(200));
        style.fill_color = if kani::any() { Some(Gray8::new(50)) } else { None };
        style.stroke_width = (kani::any::<u8>() & 127) as u32 + 1;
        style.stroke_alignment = StrokeAlignment::Inside;
        style.stroke_style = StrokeStyle::Dotted;
        let styled = r.into_styled(style);
        let q = any_point(4096);
        let mut t = ProbeNative::<Gray8>(ProbeState::new(q, everything(), styled.bounding_box()));
        let res = styled.draw(&mut t);
        assert!(res.is_ok());
        assert!(!t.0.escaped);
        assert!(t.0.last == if sp::contains(&styled.fill_area(), q) { style.fill_color } else { None });
        kani::cover!(thin == 1 && other == 10);
    }
}
//@end
