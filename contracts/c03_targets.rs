//! Unit `c03_targets`: clipped / cropped / translated / colour-converted draw targets, the colour
//! stream cropping iterator, and the DrawTarget trait defaults (property C03).
//@unit c03_targets
//@crate main
//@needs arb probe

// ------------------------------------------------------------------ iterator::contiguous::Cropped
//@append src/iterator/contiguous.rs
#[cfg(kani)]
#[allow(missing_docs, trivial_casts, trivial_numeric_casts, unused_qualifications, dead_code, unused)]
mod verif_c03i {
    use super::*;
    use crate::verif_probe::{sp, CountIter};

    /// Representation invariant of Cropped<CountIter> with a ghost row base `rb` (= source index of the
    /// first cropped column in the current row): the source position is rb + x. `src_w` is the width of
    /// the uncropped stream. No products: rb is a ghost accumulator (next row: rb + src_w).
    pub fn inv(s: &Cropped<CountIter>, rb: u32, src_w: u32) -> bool {
        s.size.width <= src_w
            && s.row_skip == (src_w - s.size.width) as usize
            && s.x <= s.size.width
            && (s.y < s.size.height && s.size.width > 0) // not finished
            && s.iter.pos as u64 == rb as u64 + s.x as u64
            && (rb as u64 + src_w as u64 + s.size.width as u64) < (1u64 << 24)
    }

    /// Step contract, all states: in the middle of a row the output is source item rb + x; at the end
    /// of a row the next output is rb + src_w (same column of the next source row) or None after the
    /// last row; a short stream yields None exactly when the source index is past its end.
    //@harness prop=C03 kind=step tier=quick class=I fns=src/iterator/contiguous.rs::Cropped::next
    #[kani::proof]
    fn c03_cropped_iter_step() {
        let src_w: u32 = kani::any();
        let rb: u32 = kani::any();
        let mut s = Cropped {
            iter: CountIter { pos: kani::any(), len: kani::any() },
            x: kani::any(),
            y: kani::any(),
            size: kani::any(),
            row_skip: kani::any(),
        };
        kani::assume(inv(&s, rb, src_w));
        kani::assume(s.iter.pos <= s.iter.len);
        let o = Cropped { iter: s.iter, x: s.x, y: s.y, size: s.size, row_skip: s.row_skip };
        let r = s.next();
        // frame
        assert!(s.size == o.size && s.row_skip == o.row_skip && s.iter.len == o.iter.len);
        if o.x < o.size.width {
            let idx = rb + o.x;
            assert!(s.x == o.x + 1 && s.y == o.y);
            assert!(r.map(CountIter::index) == if idx < o.iter.len { Some(idx) } else { None });
            assert!(idx >= o.iter.len || s.iter.pos == rb + s.x);
        } else if o.y + 1 < o.size.height {
            let idx = rb + src_w;
            assert!(s.x == 1 && s.y == o.y + 1);
            assert!(r.map(CountIter::index) == if idx < o.iter.len { Some(idx) } else { None });
            // the invariant is re-established with the next row base
            assert!(idx >= o.iter.len || inv(&s, rb + src_w, src_w) || (rb as u64 + 2 * src_w as u64 + s.size.width as u64) >= (1u64 << 24));
        } else {
            // last row finished: None now and (y >= height) forever after
            assert!(r.is_none() && s.y >= s.size.height);
            let r2 = s.next();
            assert!(r2.is_none() && s.y >= s.size.height);
        }
        kani::cover!(o.x < o.size.width && r.is_some());
        kani::cover!(o.x == o.size.width && r.is_some());
        kani::cover!(o.x == o.size.width && o.y + 1 == o.size.height);
    }

    /// Finished or empty crop: None, state unchanged.
    //@harness prop=C03 kind=step tier=quick class=I fns=src/iterator/contiguous.rs::Cropped::next
    #[kani::proof]
    fn c03_cropped_iter_finished() {
        let mut s = Cropped {
            iter: CountIter { pos: kani::any(), len: kani::any() },
            x: kani::any(),
            y: kani::any(),
            size: kani::any(),
            row_skip: kani::any(),
        };
        kani::assume(s.y >= s.size.height || s.size.width == 0);
        let pos = s.iter.pos;
        assert!(s.next().is_none());
        assert!(s.iter.pos == pos);
        kani::cover!(true);
    }

    /// Constructor contract: crop = (0,0,size) /\ crop_area; the invariant holds with
    /// rb = crop.y * width + crop.x (the one product), x = y = 0, cropped size and row_skip as stated.
    //@harness prop=C03,C08 kind=contract tier=quick class=P fns=src/iterator/contiguous.rs::Cropped::new
    #[kani::proof]
    fn c03_cropped_iter_new() {
        let size: Size = kani::any();
        let crop: Rectangle = kani::any();
        kani::assume(sp::sz_in(size, 2048) && sp::rect_in(&crop, 8192)); // indices stay below 2^24 (CountIter carries them in an Rgb888)
        let len: u32 = kani::any();
        let s = Cropped::new(CountIter::new(len), size, &crop);
        let c = sp::inter(&Rectangle::new(Point::new(0, 0), size), &crop);
        assert!(s.x == 0 && s.y == 0);
        if sp::is_empty(&c) {
            // nothing will be emitted
            assert!(s.size.width == 0 || s.size.height == 0);
            let mut s2 = s;
            assert!(s2.next().is_none());
        } else {
            assert!(s.size == c.size);
            assert!(s.row_skip == (size.width - c.size.width) as usize);
            let rb = c.top_left.y as u32 * size.width + c.top_left.x as u32;
            assert!(s.iter.pos == if rb <= len { rb } else { len });
            assert!(rb > len || inv(&s, rb, size.width));
        }
        kani::cover!(!sp::is_empty(&c) && c.top_left.y > 0 && c.top_left.x > 0);
        kani::cover!(sp::is_empty(&c));
    }

    /// From-constructor companion (class P, bounded): the whole output of Cropped::new(..) equals the
    /// row-major list of source indices of the crop, for source sizes <= 4x4.
    //@harness prop=C03 kind=bounded tier=quick class=P bound="source stream <= 4x4, all crop areas with |coordinates| <= 8"
    #[kani::proof]
    #[kani::unwind(18)]
    fn c03_cropped_iter_from_constructor_bounded() {
        let size: Size = kani::any();
        let crop: Rectangle = kani::any();
        kani::assume(size.width <= 4 && size.height <= 4 && sp::rect_in(&crop, 8));
        let len: u32 = kani::any();
        kani::assume(len <= 16);
        let mut s = Cropped::new(CountIter::new(len), size, &crop);
        let c = sp::inter(&Rectangle::new(Point::new(0, 0), size), &crop);
        let n = c.size.width * c.size.height;
        let mut k: u32 = 0;
        let (mut ex, mut ey) = (0u32, 0u32);
        let mut ended = false;
        while k < 17 {
            let r = s.next();
            if k < n && !ended {
                let idx = (c.top_left.y as u32 + ey) * size.width + c.top_left.x as u32 + ex;
                if idx < len {
                    assert!(r.map(CountIter::index) == Some(idx));
                } else {
                    assert!(r.is_none());
                    ended = true;
                }
                ex += 1;
                if ex == c.size.width {
                    ex = 0;
                    ey += 1;
                }
            } else if k >= n {
                assert!(r.is_none());
            }
            k += 1;
        }
        kani::cover!(n == 6 && len == 16);
    }

    /// IntoPixels pairs the row-major points of the box with the colours: from-constructor, bounded.
    //@harness prop=C03 kind=bounded tier=quick class=P bound="box <= 3x3"
    #[kani::proof]
    #[kani::unwind(11)]
    fn c03_into_pixels_bounded() {
        let bb = crate::verif_probe::any_rect(1000);
        kani::assume(bb.size.width <= 3 && bb.size.height <= 3);
        let len: u32 = kani::any();
        kani::assume(len <= 10);
        let mut it = IntoPixels::new(CountIter::new(len), bb);
        let n = bb.size.width * bb.size.height;
        let mut k: u32 = 0;
        let (mut ex, mut ey) = (0i32, 0i32);
        while k < 10 {
            let r = it.next();
            if k < n && k < len {
                assert!(r == Some(Pixel(bb.top_left + Point::new(ex, ey), CountIter::color(k))));
                ex += 1;
                if ex == bb.size.width as i32 {
                    ex = 0;
                    ey += 1;
                }
            } else {
                assert!(r.is_none());
            }
            k += 1;
        }
        kani::cover!(n == 9 && len == 10);
    }
}
//@end

// ------------------------------------------------------------------ draw target adapters
//@append src/draw_target/mod.rs
#[cfg(kani)]
#[allow(missing_docs, trivial_casts, trivial_numeric_casts, unused_qualifications, dead_code, unused)]
mod verif_c03 {
    use super::*;
    use crate::{
        geometry::{Dimensions, OriginDimensions, Size},
        pixelcolor::{Gray8, Rgb565, Rgb888},
        verif_probe::{any_point, any_rect, everything, sp, CountIter, ProbeIter, ProbeNative, ProbeState, DOM},
        Pixel,
    };

    fn any_gray() -> Gray8 {
        Gray8::new(kani::any())
    }

    // ---------------------------------------------------------------- Clipped
    /// bounding box = clip /\ parent box (as a point set), for arbitrary non-origin, possibly empty boxes
    //@harness prop=C03,C08 kind=contract tier=quick class=P fns=src/draw_target/clipped.rs::Clipped::new;src/draw_target/clipped.rs::Clipped::bounding_box
    #[kani::proof]
    fn c03_clipped_bounding_box() {
        let bbox = any_rect(DOM);
        let clip = any_rect(DOM);
        let q = any_point(2 * DOM);
        let mut parent = ProbeNative::<Gray8>(ProbeState::new(q, bbox, everything()));
        let cl = parent.clipped(&clip);
        let bb = cl.bounding_box();
        assert!(sp::contains(&bb, q) == (sp::contains(&clip, q) && sp::contains(&bbox, q)));
        assert!(sp::same_points(&bb, &sp::inter(&clip, &bbox)));
        kani::cover!(!sp::is_empty(&bb));
        kani::cover!(sp::is_empty(&bb) && !sp::is_empty(&clip) && !sp::is_empty(&bbox));
    }

    /// fill_solid through a clipped target: nothing outside clip /\ box reaches the parent; inside it
    /// the parent ends up exactly as after the direct operation. All areas, loop-free.
    //@harness prop=C03,C08 kind=contract tier=quick class=P fns=src/draw_target/clipped.rs::Clipped::fill_solid
    #[kani::proof]
    fn c03_clipped_fill_solid() {
        let bbox = any_rect(DOM);
        let clip = any_rect(DOM);
        let area = any_rect(DOM);
        let q = any_point(2 * DOM);
        let c = any_gray();
        let allowed = sp::inter(&clip, &bbox);
        let mut parent = ProbeNative::<Gray8>(ProbeState::new(q, bbox, allowed));
        let mut direct = ProbeNative::<Gray8>(ProbeState::new(q, bbox, everything()));
        let r = parent.clipped(&clip).fill_solid(&area, c);
        direct.fill_solid(&area, c).unwrap();
        assert!(r.is_ok());
        assert!(!parent.0.escaped);
        if sp::contains(&allowed, q) {
            assert!(parent.0.last == direct.0.last && parent.0.writes == direct.0.writes);
        } else {
            assert!(parent.0.last.is_none() && parent.0.writes == 0);
        }
        kani::cover!(sp::contains(&allowed, q) && parent.0.last.is_some());
        kani::cover!(!sp::contains(&allowed, q) && direct.0.last.is_some());
    }

    /// clear() of a clipped target fills exactly clip /\ box
    //@harness prop=C03 kind=contract tier=quick class=P fns=src/draw_target/clipped.rs::Clipped::clear(default)
    #[kani::proof]
    fn c03_clipped_clear() {
        let bbox = any_rect(DOM);
        let clip = any_rect(DOM);
        let q = any_point(2 * DOM);
        let c = any_gray();
        let allowed = sp::inter(&clip, &bbox);
        let mut parent = ProbeNative::<Gray8>(ProbeState::new(q, bbox, allowed));
        let r = parent.clipped(&clip).clear(c);
        assert!(r.is_ok() && !parent.0.escaped);
        assert!(parent.0.last == if sp::contains(&allowed, q) { Some(c) } else { None });
        kani::cover!(parent.0.last.is_some());
        kani::cover!(parent.0.last.is_none() && sp::contains(&bbox, q));
    }

    /// draw_iter with arbitrary unordered points (two symbolic pixels per call)
    //@harness prop=C03 kind=bounded tier=quick class=P bound="2 symbolic pixels per draw_iter call" fns=src/draw_target/clipped.rs::Clipped::draw_iter
    #[kani::proof]
    #[kani::unwind(4)]
    fn c03_clipped_draw_iter() {
        let bbox = any_rect(DOM);
        let clip = any_rect(DOM);
        let q = any_point(2 * DOM);
        let px = [Pixel(any_point(2 * DOM), any_gray()), Pixel(any_point(2 * DOM), any_gray())];
        let allowed = sp::inter(&clip, &bbox);
        let mut parent = ProbeNative::<Gray8>(ProbeState::new(q, bbox, allowed));
        let mut direct = ProbeNative::<Gray8>(ProbeState::new(q, bbox, everything()));
        let r = parent.clipped(&clip).draw_iter(px.iter().copied());
        direct.draw_iter(px.iter().copied()).unwrap();
        assert!(r.is_ok() && !parent.0.escaped);
        if sp::contains(&allowed, q) {
            assert!(parent.0.last == direct.0.last && parent.0.writes == direct.0.writes);
        } else {
            assert!(parent.0.last.is_none());
        }
        kani::cover!(parent.0.writes == 2);
        kani::cover!(direct.0.writes == 1 && parent.0.writes == 0);
    }

    /// fill_contiguous through a clipped target with full and short colour streams: the colour that
    /// reaches q is the one the direct operation pairs with q (its row-major index in `area`).
    //@harness prop=C03 kind=bounded tier=quick class=P bound="area <= 4x4 (stream drained by the probe), positions/boxes display scale" fns=src/draw_target/clipped.rs::Clipped::fill_contiguous
    #[kani::proof]
    #[kani::unwind(18)]
    fn c03_clipped_fill_contiguous() {
        let bbox = any_rect(DOM);
        let clip = any_rect(DOM);
        let area = any_rect(DOM);
        kani::assume(area.size.width <= 4 && area.size.height <= 4);
        let q = any_point(2 * DOM);
        let len: u32 = kani::any();
        kani::assume(len <= 16);
        let allowed = sp::inter(&clip, &bbox);
        let mut parent = ProbeNative::<Rgb888>(ProbeState::new(q, bbox, allowed));
        let r = parent.clipped(&clip).fill_contiguous(&area, CountIter::new(len));
        assert!(r.is_ok() && !parent.0.escaped);
        let expected = if sp::contains(&allowed, q) && sp::contains(&area, q) && sp::row_major_index(&area, q) < len as i64 {
            Some(CountIter::color(sp::row_major_index(&area, q) as u32))
        } else {
            None
        };
        assert!(parent.0.last == expected);
        assert!(parent.0.writes <= 1);
        kani::cover!(expected.is_some() && !sp::subset(&area, &allowed));
        kani::cover!(expected.is_some() && sp::subset(&area, &allowed));
        kani::cover!(sp::contains(&allowed, q) && sp::contains(&area, q) && expected.is_none());
    }

    // ---------------------------------------------------------------- Translated
    /// translated target: documented shift and bounding box; every operation == the direct one on the
    /// shifted geometry. fill_solid / clear / box loop-free.
    //@harness prop=C03,C08 kind=contract tier=quick class=P fns=src/draw_target/translated.rs::Translated::fill_solid;src/draw_target/translated.rs::Translated::clear;src/draw_target/translated.rs::Translated::bounding_box
    #[kani::proof]
    fn c03_translated_fill_solid_clear_box() {
        let bbox = any_rect(DOM);
        let off = any_point(DOM);
        let area = any_rect(DOM);
        let q = any_point(4 * DOM);
        let c = any_gray();
        let mut parent = ProbeNative::<Gray8>(ProbeState::new(q, bbox, everything()));
        let mut direct = ProbeNative::<Gray8>(ProbeState::new(q, bbox, everything()));
        {
            let mut t = parent.translated(off);
            // a point p of the translated target is parent point p + off
            assert!(sp::same_points(&t.bounding_box(), &sp::shift(&bbox, Point::new(-off.x, -off.y))) || (sp::is_empty(&bbox) && t.bounding_box().size == bbox.size));
            if kani::any() {
                t.fill_solid(&area, c).unwrap();
                direct.fill_solid(&sp::shift(&area, off), c).unwrap();
            } else {
                t.clear(c).unwrap();
                direct.clear(c).unwrap();
            }
        }
        assert!(parent.0.last == direct.0.last && parent.0.writes == direct.0.writes);
        kani::cover!(parent.0.last.is_some());
    }

    //@harness prop=C03 kind=bounded tier=quick class=P bound="2 symbolic pixels per draw_iter; area <= 4x4 for fill_contiguous" fns=src/draw_target/translated.rs::Translated::draw_iter;src/draw_target/translated.rs::Translated::fill_contiguous;src/iterator/pixel.rs::Translated::next
    #[kani::proof]
    #[kani::unwind(18)]
    fn c03_translated_draw_iter_fill_contiguous() {
        let bbox = any_rect(DOM);
        let off = any_point(DOM);
        let q = any_point(4 * DOM);
        if kani::any() {
            let px = [Pixel(any_point(2 * DOM), any_gray()), Pixel(any_point(2 * DOM), any_gray())];
            let mut parent = ProbeNative::<Gray8>(ProbeState::new(q, bbox, everything()));
            parent.translated(off).draw_iter(px.iter().copied()).unwrap();
            // expected: last pixel whose shifted position is q
            let hit = |i: usize| px[i].0.x + off.x == q.x && px[i].0.y + off.y == q.y;
            let expected = if hit(1) { Some(px[1].1) } else if hit(0) { Some(px[0].1) } else { None };
            assert!(parent.0.last == expected);
            kani::cover!(expected.is_some());
        } else {
            let area = any_rect(DOM);
            kani::assume(area.size.width <= 4 && area.size.height <= 4);
            let len: u32 = kani::any();
            kani::assume(len <= 16);
            let mut parent = ProbeNative::<Rgb888>(ProbeState::new(q, bbox, everything()));
            parent.translated(off).fill_contiguous(&area, CountIter::new(len)).unwrap();
            let sa = sp::shift(&area, off);
            let expected = if sp::contains(&sa, q) && sp::row_major_index(&sa, q) < len as i64 {
                Some(CountIter::color(sp::row_major_index(&sa, q) as u32))
            } else {
                None
            };
            assert!(parent.0.last == expected);
            kani::cover!(expected.is_some());
        }
    }

    // ---------------------------------------------------------------- Cropped target
    /// cropped(area): origin at (area /\ parent box).top_left, size of that intersection, not clipped.
    //@harness prop=C03,C08 kind=contract tier=quick class=P fns=src/draw_target/cropped.rs::Cropped::new;src/draw_target/cropped.rs::Cropped::size;src/draw_target/cropped.rs::Cropped::fill_solid;src/draw_target/cropped.rs::Cropped::clear(default)
    #[kani::proof]
    fn c03_cropped_target_fill_solid_clear_box() {
        let bbox = any_rect(DOM);
        let crop = any_rect(DOM);
        let area = any_rect(DOM);
        let q = any_point(4 * DOM);
        let c = any_gray();
        let eff = sp::inter(&crop, &bbox);
        let mut parent = ProbeNative::<Gray8>(ProbeState::new(q, bbox, everything()));
        let mut direct = ProbeNative::<Gray8>(ProbeState::new(q, bbox, everything()));
        {
            let mut t = parent.cropped(&crop);
            assert!(t.bounding_box().top_left == Point::new(0, 0));
            assert!(sp::same_points(&t.bounding_box(), &Rectangle::new(Point::new(0, 0), eff.size)));
            if !sp::is_empty(&eff) {
                if kani::any() {
                    t.fill_solid(&area, c).unwrap();
                    direct.fill_solid(&sp::shift(&area, eff.top_left), c).unwrap();
                } else {
                    // default clear: fills the cropped target's own bounding box == the crop area in the parent
                    t.clear(c).unwrap();
                    direct.fill_solid(&eff, c).unwrap();
                }
            }
        }
        assert!(parent.0.last == direct.0.last && parent.0.writes == direct.0.writes);
        kani::cover!(parent.0.last.is_some());
        kani::cover!(sp::is_empty(&eff));
    }

    //@harness prop=C03 kind=bounded tier=quick class=P bound="2 symbolic pixels per draw_iter; area <= 4x4 for fill_contiguous" fns=src/draw_target/cropped.rs::Cropped::draw_iter;src/draw_target/cropped.rs::Cropped::fill_contiguous
    #[kani::proof]
    #[kani::unwind(18)]
    fn c03_cropped_target_draw_iter_fill_contiguous() {
        let bbox = any_rect(DOM);
        let crop = any_rect(DOM);
        let q = any_point(4 * DOM);
        let eff = sp::inter(&crop, &bbox);
        kani::assume(!sp::is_empty(&eff));
        let off = eff.top_left;
        if kani::any() {
            let px = [Pixel(any_point(2 * DOM), any_gray()), Pixel(any_point(2 * DOM), any_gray())];
            let mut parent = ProbeNative::<Gray8>(ProbeState::new(q, bbox, everything()));
            parent.cropped(&crop).draw_iter(px.iter().copied()).unwrap();
            let hit = |i: usize| px[i].0.x + off.x == q.x && px[i].0.y + off.y == q.y;
            let expected = if hit(1) { Some(px[1].1) } else if hit(0) { Some(px[0].1) } else { None };
            assert!(parent.0.last == expected);
            kani::cover!(expected.is_some());
        } else {
            let area = any_rect(DOM);
            kani::assume(area.size.width <= 4 && area.size.height <= 4);
            let len: u32 = kani::any();
            kani::assume(len <= 16);
            let mut parent = ProbeNative::<Rgb888>(ProbeState::new(q, bbox, everything()));
            parent.cropped(&crop).fill_contiguous(&area, CountIter::new(len)).unwrap();
            let sa = sp::shift(&area, off);
            let expected = if sp::contains(&sa, q) && sp::row_major_index(&sa, q) < len as i64 {
                Some(CountIter::color(sp::row_major_index(&sa, q) as u32))
            } else {
                None
            };
            assert!(parent.0.last == expected);
            kani::cover!(expected.is_some());
        }
    }

    // ---------------------------------------------------------------- ColorConverted
    /// every colour goes through Into; geometry and bounding box untouched
    //@harness prop=C03 kind=bounded tier=quick class=P bound="2 symbolic pixels per draw_iter; area <= 3x3 for fill_contiguous (Map has no closed-form nth)" fns=src/draw_target/color_converted.rs::ColorConverted
    #[kani::proof]
    #[kani::unwind(11)]
    fn c03_color_converted() {
        let bbox = any_rect(DOM);
        let q = any_point(2 * DOM);
        let area = any_rect(DOM);
        let c = Rgb888::new(kani::any(), kani::any(), kani::any());
        let mut parent = ProbeNative::<Rgb565>(ProbeState::new(q, bbox, everything()));
        let which: u8 = kani::any();
        let mut expected23: Option<Rgb565> = None;
        {
            let mut t = parent.color_converted::<Rgb888>();
            assert!(t.bounding_box() == bbox);
            match which {
                0 => t.fill_solid(&area, c).unwrap(),
                1 => t.clear(c).unwrap(),
                2 => {
                    let px = [Pixel(any_point(2 * DOM), c), Pixel(any_point(2 * DOM), Rgb888::new(kani::any(), kani::any(), kani::any()))];
                    t.draw_iter(px.iter().copied()).unwrap();
                    expected23 = if px[1].0 == q { Some(Rgb565::from(px[1].1)) } else if px[0].0 == q { Some(Rgb565::from(px[0].1)) } else { None };
                }
                _ => {
                    kani::assume(area.size.width <= 3 && area.size.height <= 3);
                    let len: u32 = kani::any();
                    kani::assume(len <= 9);
                    t.fill_contiguous(&area, CountIter::new(len)).unwrap();
                    expected23 = if sp::contains(&area, q) && sp::row_major_index(&area, q) < len as i64 {
                        Some(Rgb565::from(CountIter::color(sp::row_major_index(&area, q) as u32)))
                    } else {
                        None
                    };
                }
            }
        }
        if which == 0 {
            assert!(parent.0.last == if sp::contains(&area, q) { Some(Rgb565::from(c)) } else { None });
        }
        if which == 1 {
            assert!(parent.0.last == if sp::contains(&bbox, q) { Some(Rgb565::from(c)) } else { None });
        }
        if which >= 2 {
            assert!(parent.0.last == expected23);
        }
        kani::cover!(which == 0 && parent.0.last.is_some());
        kani::cover!(which == 2 && parent.0.last.is_some());
        kani::cover!(which == 3 && parent.0.last.is_some());
    }

    // ---------------------------------------------------------------- trait defaults (real bodies in core)
    /// default fill_solid / clear / fill_contiguous on a draw_iter-only target set exactly the
    /// row-major points of the area paired with the colour stream (real default bodies of core).
    //@harness prop=C03,C01 kind=bounded tier=quick class=P bound="area <= 3x2 (the default body drains area.points())" fns=core/src/draw_target/mod.rs::DrawTarget::fill_solid(default)
    #[kani::proof]
    #[kani::unwind(8)]
    fn c03_default_fill_solid() {
        let bbox = any_rect(DOM);
        let area = any_rect(DOM);
        let q = any_point(2 * DOM);
        kani::assume(area.size.width <= 3 && area.size.height <= 2);
        let c = any_gray();
        let mut t = ProbeIter::<Gray8>(ProbeState::new(q, bbox, area));
        t.fill_solid(&area, c).unwrap();
        assert!(!t.0.escaped && t.0.calls == 1);
        assert!(t.0.last == if sp::contains(&area, q) { Some(c) } else { None });
        assert!(t.0.writes <= 1);
        kani::cover!(t.0.last.is_some() && area.size.width == 3 && area.size.height == 2);
    }
    //@harness prop=C03,C01 kind=bounded tier=quick class=P bound="bounding box <= 3x2" fns=core/src/draw_target/mod.rs::DrawTarget::clear(default)
    #[kani::proof]
    #[kani::unwind(8)]
    fn c03_default_clear() {
        let bbox = any_rect(DOM);
        let q = any_point(2 * DOM);
        kani::assume(bbox.size.width <= 3 && bbox.size.height <= 2);
        let c = any_gray();
        let mut t = ProbeIter::<Gray8>(ProbeState::new(q, bbox, bbox));
        t.clear(c).unwrap();
        assert!(!t.0.escaped);
        assert!(t.0.last == if sp::contains(&bbox, q) { Some(c) } else { None });
        kani::cover!(t.0.last.is_some());
    }
    //@harness prop=C03,C01 kind=bounded tier=quick class=P bound="area <= 3x2, full and short streams" fns=core/src/draw_target/mod.rs::DrawTarget::fill_contiguous(default)
    #[kani::proof]
    #[kani::unwind(8)]
    fn c03_default_fill_contiguous() {
        let bbox = any_rect(DOM);
        let area = any_rect(DOM);
        let q = any_point(2 * DOM);
        kani::assume(area.size.width <= 3 && area.size.height <= 2);
        let len: u32 = kani::any();
        kani::assume(len <= 7);
        let mut t = ProbeIter::<Rgb888>(ProbeState::new(q, bbox, area));
        t.fill_contiguous(&area, CountIter::new(len)).unwrap();
        assert!(!t.0.escaped);
        let expected = if sp::contains(&area, q) && sp::row_major_index(&area, q) < len as i64 {
            Some(CountIter::color(sp::row_major_index(&area, q) as u32))
        } else {
            None
        };
        assert!(t.0.last == expected && t.0.writes <= 1);
        kani::cover!(expected.is_some());
        kani::cover!(sp::contains(&area, q) && expected.is_none());
    }

    // ---------------------------------------------------------------- nestings (depth 2 and 3)
    /// Nested adapters compose like the geometric transformations: the composed target maps point p
    /// to parent point p + shift and lets it through iff it is inside the composed clip.
    /// Checked through fill_solid, clear and a one-pixel draw_iter.
    fn nestings(stack: u8) {
        let bbox = any_rect(1024);
        let a = any_rect(1024);
        let b = any_rect(1024);
        let o1 = any_point(1024);
        let q = any_point(8192);
        let c = any_gray();
        let area = any_rect(1024);
        let px = Pixel(any_point(1024), c);
        let op: u8 = kani::any();
        kani::assume(op < 3);
        let mut parent = ProbeNative::<Gray8>(ProbeState::new(q, bbox, everything()));
        // (shift, clip in the composed target's coordinates or None for "not clipped", own bounding box)
        let (shift, clip, clear_region): (Point, Option<Rectangle>, Rectangle);
        let own_box: Rectangle;
        macro_rules! run {
            ($t:expr) => {{
                let mut t = $t;
                own_box = t.bounding_box();
                match op {
                    0 => t.fill_solid(&area, c).unwrap(),
                    1 => t.clear(c).unwrap(),
                    _ => t.draw_iter(core::iter::once(px)).unwrap(),
                }
            }};
        }
        match stack {
            0 => {
                // clipped(a).clipped(b) == clipped(a /\ b /\ box)
                shift = Point::new(0, 0);
                clip = Some(sp::inter(&sp::inter(&a, &bbox), &b));
                clear_region = sp::inter(&sp::inter(&a, &bbox), &b);
                let mut l1 = parent.clipped(&a);
                run!(l1.clipped(&b));
            }
            1 => {
                // translated(o1).clipped(a): clip a /\ (box - o1) in translated coordinates
                shift = o1;
                clip = Some(sp::inter(&a, &sp::shift(&bbox, Point::new(-o1.x, -o1.y))));
                clear_region = sp::shift(&sp::inter(&a, &sp::shift(&bbox, Point::new(-o1.x, -o1.y))), o1);
                let mut l1 = parent.translated(o1);
                run!(l1.clipped(&a));
            }
            2 => {
                // clipped(a).translated(o1): clip (a /\ box) - o1
                shift = o1;
                clip = Some(sp::shift(&sp::inter(&a, &bbox), Point::new(-o1.x, -o1.y)));
                // Translated forwards clear() to its parent: the clipped target clears its own box
                clear_region = sp::inter(&a, &bbox);
                let mut l1 = parent.clipped(&a);
                run!(l1.translated(o1));
            }
            3 => {
                // cropped(a).clipped(b): origin at (a /\ box).tl, clip b /\ (0,0,size)
                let eff = sp::inter(&a, &bbox);
                kani::assume(!sp::is_empty(&eff));
                shift = eff.top_left;
                clip = Some(sp::inter(&b, &Rectangle::new(Point::new(0, 0), eff.size)));
                clear_region = sp::shift(&sp::inter(&b, &Rectangle::new(Point::new(0, 0), eff.size)), eff.top_left);
                let mut l1 = parent.cropped(&a);
                run!(l1.clipped(&b));
            }
            4 => {
                // clipped(a).cropped(b).translated(o1)
                let inner = sp::inter(&a, &bbox);
                let eff = sp::inter(&b, &inner);
                kani::assume(!sp::is_empty(&eff));
                shift = Point::new(eff.top_left.x + o1.x, eff.top_left.y + o1.y);
                clip = Some(sp::shift(&inner, Point::new(-shift.x, -shift.y)));
                // Translated::clear -> Cropped default clear: the crop area in parent coordinates
                clear_region = eff;
                let mut l1 = parent.clipped(&a);
                let mut l2 = l1.cropped(&b);
                run!(l2.translated(o1));
            }
            _ => {
                // translated(o1).translated(o1).cropped(a): pure shifts, not clipped
                let box2 = sp::shift(&bbox, Point::new(-2 * o1.x, -2 * o1.y));
                let eff = sp::inter(&a, &box2);
                kani::assume(!sp::is_empty(&eff));
                shift = Point::new(2 * o1.x + eff.top_left.x, 2 * o1.y + eff.top_left.y);
                clip = None;
                clear_region = sp::shift(&eff, Point::new(2 * o1.x, 2 * o1.y));
                let mut l1 = parent.translated(o1);
                let mut l2 = l1.translated(o1);
                run!(l2.cropped(&a));
            }
        }
        // expected effect at q, in composed-target coordinates p = q - shift
        let p = Point::new(q.x - shift.x, q.y - shift.y);
        let passes = match clip { Some(cl) => sp::contains(&cl, p), None => true };
        let expected = match op {
            0 => passes && sp::contains(&area, p),
            1 => sp::contains(&clear_region, q),
            _ => passes && px.0.x == p.x && px.0.y == p.y,
        };
        assert!(parent.0.last.is_some() == expected);
        if parent.0.last.is_some() {
            assert!(parent.0.last == Some(c));
        }
        kani::cover!(expected && op == 0);
        kani::cover!(expected && op == 1);
        kani::cover!(expected && op == 2);
    }

    //@harness prop=C03 kind=bounded tier=quick class=P bound="nesting clipped . clipped (depth 2), one operation per run (fill_solid / clear / 1-pixel draw_iter), coordinates <= 1024"
    #[kani::proof]
    #[kani::unwind(3)]
    fn c03_nesting_clipped_clipped() {
        nestings(0);
    }
    //@harness prop=C03 kind=bounded tier=quick class=P bound="nesting translated . clipped (depth 2), one operation per run (fill_solid / clear / 1-pixel draw_iter), coordinates <= 1024"
    #[kani::proof]
    #[kani::unwind(3)]
    fn c03_nesting_translated_clipped() {
        nestings(1);
    }
    //@harness prop=C03 kind=bounded tier=quick class=P bound="nesting clipped . translated (depth 2), one operation per run (fill_solid / clear / 1-pixel draw_iter), coordinates <= 1024"
    #[kani::proof]
    #[kani::unwind(3)]
    fn c03_nesting_clipped_translated() {
        nestings(2);
    }
    //@harness prop=C03 kind=bounded tier=quick class=P bound="nesting cropped . clipped (depth 2), one operation per run (fill_solid / clear / 1-pixel draw_iter), coordinates <= 1024"
    #[kani::proof]
    #[kani::unwind(3)]
    fn c03_nesting_cropped_clipped() {
        nestings(3);
    }
    //@harness prop=C03 kind=bounded tier=quick class=P bound="nesting clipped . cropped . translated (depth 3), one operation per run (fill_solid / clear / 1-pixel draw_iter), coordinates <= 1024"
    #[kani::proof]
    #[kani::unwind(3)]
    fn c03_nesting_clipped_cropped_translated() {
        nestings(4);
    }
    //@harness prop=C03 kind=bounded tier=quick class=P bound="nesting translated . translated . cropped (depth 3), one operation per run (fill_solid / clear / 1-pixel draw_iter), coordinates <= 1024"
    #[kani::proof]
    #[kani::unwind(3)]
    fn c03_nesting_translated_translated_cropped() {
        nestings(5);
    }
    //@harness prop=C03 kind=canary tier=quick class=P expect=fail
    #[kani::proof]
    fn c03_canary() {
        let bbox = any_rect(DOM);
        let clip = any_rect(DOM);
        let area = any_rect(DOM);
        let q = any_point(2 * DOM);
        let mut parent = ProbeNative::<Gray8>(ProbeState::new(q, bbox, clip));
        parent.clipped(&clip).fill_solid(&area, Gray8::new(1)).unwrap();
        assert!(parent.0.last.is_some() == sp::contains(&area, q));
    }
}
//@end
