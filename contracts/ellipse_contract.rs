//! Unit `ellipse_contract`: contract on EllipseContains::{new, contains} (used by C05/C06/C18 row
//! harnesses through stub_verified, so that a row search evaluates the 32-bit closed form of the
//! spec instead of the 64-bit saturating arithmetic of the implementation).
//@unit ellipse_contract
//@crate main
//@needs arb probe

//@attach src/primitives/ellipse/mod.rs :: impl EllipseContains { :: pub const fn contains(&self, point: Point) -> bool {
#[kani::requires(verif_ell::small(self, point))]
#[kani::ensures(|r: &bool| *r == verif_ell::contains_spec32(self.a as u32, self.b as u32, self.threshold as u32, point))]
//@end

//@attach src/primitives/rounded_rectangle/corner_radii.rs :: impl CornerRadii { :: fn confine(self, bounding_box: Size) -> Self {
#[kani::requires(verif_cr::fits(&self, bounding_box))]
#[kani::ensures(|r: &Self| *r == self)]
//@end
//@append src/primitives/rounded_rectangle/corner_radii.rs
#[cfg(kani)]
#[allow(missing_docs, trivial_casts, trivial_numeric_casts, unused_qualifications, dead_code, unused)]
pub(in crate::primitives) mod verif_cr {
    use super::*;
    /// adjacent radii do not add up to more than the side they share (and sums do not overflow)
    pub fn fits(c: &CornerRadii, s: Size) -> bool {
        let m = 1u32 << 30;
        c.top_left.width < m && c.top_right.width < m && c.bottom_left.width < m && c.bottom_right.width < m
            && c.top_left.height < m && c.top_right.height < m && c.bottom_left.height < m && c.bottom_right.height < m
            && c.top_left.width + c.top_right.width <= s.width
            && c.bottom_left.width + c.bottom_right.width <= s.width
            && c.top_left.height + c.bottom_left.height <= s.height
            && c.top_right.height + c.bottom_right.height <= s.height
    }
    impl kani::Arbitrary for CornerRadii {
        fn any() -> Self {
            Self { top_left: kani::any(), top_right: kani::any(), bottom_right: kani::any(), bottom_left: kani::any() }
        }
    }
    /// radii that fit are left unchanged by confine()
    //@harness prop=C05,C06,C18 kind=contract tier=quick class=P fns=src/primitives/rounded_rectangle/corner_radii.rs::CornerRadii::confine
    #[kani::proof_for_contract(CornerRadii::confine)]
    fn corner_radii_confine_fitting_contract() {
        let c: CornerRadii = kani::any();
        let _ = c.confine(kani::any());
        kani::cover!(true);
    }
}
//@end
//@append src/primitives/ellipse/mod.rs
#[cfg(kani)]
#[allow(missing_docs, trivial_casts, trivial_numeric_casts, unused_qualifications, dead_code, unused)]
pub(in crate::primitives) mod verif_ell {
    use super::*;

    /// Domain of the 32-bit closed form: axes <= 64 (a, b <= 4096), doubled point coordinates <= 512,
    /// threshold consistent with a and b (either the circle threshold or a * b).
    pub fn small(e: &EllipseContains, p: Point) -> bool {
        e.a <= 4096 && e.b <= 4096 && e.threshold <= 4096 * 4096 && p.x >= -512 && p.x <= 512 && p.y >= -512 && p.y <= 512
    }
    /// b*x^2 + a*y^2 < a*b in doubled coordinates, with the circle special case (32-bit, no overflow
    /// in the `small` domain: 4096 * 2^18 * 2 < 2^32).
    pub fn contains_spec32(a: u32, b: u32, threshold: u32, p: Point) -> bool {
        let x = (p.x * p.x) as u32;
        let y = (p.y * p.y) as u32;
        if a == b { x + y < threshold } else { b * x + a * y < threshold }
    }
    pub fn threshold_spec(w: u32, h: u32) -> u64 {
        if w == h {
            (if w <= 4 { w * w - w / 2 } else { w * w }) as u64
        } else {
            (w as u64) * (w as u64) * (h as u64) * (h as u64)
        }
    }
    impl kani::Arbitrary for EllipseContains {
        fn any() -> Self {
            Self { a: kani::any(), b: kani::any(), threshold: kani::any() }
        }
    }

    /// harness-level contract of EllipseContains::new (sizes <= 64: a = w^2, b = h^2, threshold as specified)
    //@harness prop=C05,C06,C18 kind=contract tier=quick class=P bound="axes <= 64" fns=src/primitives/ellipse/mod.rs::EllipseContains::new
    #[kani::proof]
    #[kani::unwind(8)]
    fn ell_contains_new_contract() {
        let s: Size = kani::any();
        kani::assume(s.width <= 64 && s.height <= 64);
        let r = EllipseContains::new(s);
        assert!(r.a == (s.width * s.width) as u64 && r.b == (s.height * s.height) as u64 && r.threshold == threshold_spec(s.width, s.height));
        kani::cover!(s.width != s.height);
    }
    //@harness prop=C05,C06,C18 kind=contract tier=quick class=P fns=src/primitives/ellipse/mod.rs::EllipseContains::contains
    #[kani::proof_for_contract(EllipseContains::contains)]
    fn ell_contains_contract() {
        let e: EllipseContains = kani::any();
        let _ = e.contains(kani::any());
        kani::cover!(true);
    }
}
//@end
