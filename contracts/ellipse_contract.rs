//! Unit `ellipse_contract`: contract on EllipseContains::{new, contains} (used by C05/C06/C18 row
//! harnesses through kani::stub with the contract written as a function, so that a row search evaluates the 32-bit closed form of the
//! spec instead of the 64-bit saturating arithmetic of the implementation).
//@unit ellipse_contract
//@crate main
//@needs arb probe

//@append src/primitives/rounded_rectangle/corner_radii.rs
#[cfg(kani)]
#[allow(missing_docs, trivial_casts, trivial_numeric_casts, unused_qualifications, dead_code, unused)]
pub(in crate::primitives) mod verif_cr {
    use super::*;
    /// adjacent radii do not add up to more than the side they share (and sums do not overflow)
    pub fn fits(c: &CornerRadii, s: Size) -> bool {
        let m = 1u32 << 30;
        c.top_left.width < m && c.top_right.width < m && c.bottom_left.width < m && c.bottom_right.width < m
            && c.top_left.height < m && c.top_right.height < m && c.bottom_left.height < m && c.bottom_right.height < m
            && c.top_left.width + c.top_right.width <= s.width
            && c.bottom_left.width + c.bottom_right.width <= s.width
            && c.top_left.height + c.bottom_left.height <= s.height
            && c.top_right.height + c.bottom_right.height <= s.height
    }
    /// The contract of CornerRadii::confine as a function (see verif_ell::contains_by_contract).
    pub fn confine_by_contract(c: CornerRadii, bounding_box: Size) -> CornerRadii {
        assert!(fits(&c, bounding_box));
        c
    }
    impl kani::Arbitrary for CornerRadii {
        fn any() -> Self {
            Self { top_left: kani::any(), top_right: kani::any(), bottom_right: kani::any(), bottom_left: kani::any() }
        }
    }
    /// harness-level contract of CornerRadii::confine: radii that fit are left unchanged
    /// ({fits} confine {result == self}); callers use it through `confine_by_contract`
    //@harness prop=C05,C06,C18 kind=contract tier=quick class=P fns=src/primitives/rounded_rectangle/corner_radii.rs::CornerRadii::confine
    #[kani::proof]
    fn corner_radii_confine_fitting_contract() {
        let c: CornerRadii = kani::any();
        let bb: Size = kani::any();
        kani::assume(fits(&c, bb));
        assert!(c.confine(bb) == c);
        kani::cover!(c.top_left.width > 0 && c.bottom_right.height > 0);
    }
}
//@end
//@append src/primitives/ellipse/mod.rs
#[cfg(kani)]
#[allow(missing_docs, trivial_casts, trivial_numeric_casts, unused_qualifications, dead_code, unused)]
pub(in crate::primitives) mod verif_ell {
    use super::*;

    /// Domain of the 32-bit closed form: axes <= 64 (a, b <= 4096), doubled point coordinates <= 512,
    /// threshold consistent with a and b (either the circle threshold or a * b).
    pub fn small(e: &EllipseContains, p: Point) -> bool {
        e.a <= 4096 && e.b <= 4096 && e.threshold <= 4096 * 4096 && p.x >= -512 && p.x <= 512 && p.y >= -512 && p.y <= 512
    }
    /// b*x^2 + a*y^2 < a*b in doubled coordinates, with the circle special case (32-bit, no overflow
    /// in the `small` domain: 4096 * 2^18 * 2 < 2^32).
    pub fn contains_spec32(a: u32, b: u32, threshold: u32, p: Point) -> bool {
        let x = (p.x * p.x) as u32;
        let y = (p.y * p.y) as u32;
        if a == b { x + y < threshold } else { b * x + a * y < threshold }
    }
    /// The contract of EllipseContains::contains as a function: precondition asserted at the call site,
    /// result given by the postcondition. Used with `kani::stub` where `stub_verified` (same meaning, but
    /// instrumented by goto-instrument --dfcc, which takes 5-10 minutes per harness on this crate) is too
    /// slow; `ell_contains_contract` proves the real function against exactly these two functions.
    pub fn contains_by_contract(e: &EllipseContains, p: Point) -> bool {
        assert!(small(e, p));
        contains_spec32(e.a as u32, e.b as u32, e.threshold as u32, p)
    }
    pub fn threshold_spec(w: u32, h: u32) -> u64 {
        if w == h {
            (if w <= 4 { w * w - w / 2 } else { w * w }) as u64
        } else {
            (w as u64) * (w as u64) * (h as u64) * (h as u64)
        }
    }
    impl kani::Arbitrary for EllipseContains {
        fn any() -> Self {
            Self { a: kani::any(), b: kani::any(), threshold: kani::any() }
        }
    }

    /// harness-level contract of EllipseContains::new (sizes <= 64: a = w^2, b = h^2, threshold as specified)
    //@harness prop=C05,C06,C18 kind=contract tier=quick class=P bound="axes <= 64" fns=src/primitives/ellipse/mod.rs::EllipseContains::new
    #[kani::proof]
    #[kani::unwind(8)]
    fn ell_contains_new_contract() {
        let s: Size = kani::any();
        kani::assume(s.width <= 64 && s.height <= 64);
        let r = EllipseContains::new(s);
        assert!(r.a == (s.width * s.width) as u64 && r.b == (s.height * s.height) as u64 && r.threshold == threshold_spec(s.width, s.height));
        kani::cover!(s.width != s.height);
    }
    /// harness-level contract of EllipseContains::contains over ARBITRARY field values in the `small`
    /// domain: {small} contains {result == contains_spec32}; callers use it through `contains_by_contract`
    //@harness prop=C05,C06,C18 kind=contract tier=quick class=P fns=src/primitives/ellipse/mod.rs::EllipseContains::contains
    #[kani::proof]
    fn ell_contains_contract() {
        let e: EllipseContains = kani::any();
        let p: Point = kani::any();
        kani::assume(small(&e, p));
        assert!(e.contains(p) == contains_spec32(e.a as u32, e.b as u32, e.threshold as u32, p));
        kani::cover!(e.a != e.b && e.contains(p));
        kani::cover!(e.a == e.b && !e.contains(p));
    }
}
//@end
