//! Unit `probe`: specification-side draw targets used by the harnesses of the main crate.
//! They are not models of code under test: a probe target records what reaches it at ONE symbolic
//! point `q` (so "for every point q" is decided by making q an input of the harness), and flags
//! anything that reaches it outside an `allowed` rectangle.
//@unit probe
//@crate main
//@needs arb

// accessor for private state (added lines only; cfg(kani))
//@append src/image/sub_image.rs
#[cfg(kani)]
impl<'a, T> SubImage<'a, T> {
    pub(crate) fn verif_area(&self) -> Rectangle {
        self.area
    }
}
//@end

//@append src/lib.rs
#[cfg(kani)]
#[doc(hidden)]
#[allow(missing_docs, missing_debug_implementations, missing_copy_implementations, trivial_casts, trivial_numeric_casts, unused_qualifications, dead_code, unused)]
pub(crate) mod verif_probe {
    use crate::{
        draw_target::DrawTarget,
        geometry::{Dimensions, Point, Size},
        pixelcolor::{raw::RawU24, PixelColor, Rgb888},
        primitives::Rectangle,
        Pixel,
    };
    pub use embedded_graphics_core::verif_spec as sp;

    /// Display-scale domain used by the main-crate harnesses unless stated otherwise.
    pub const DOM: i64 = 4096;

    pub fn any_point(b: i64) -> Point {
        let p: Point = kani::any();
        kani::assume(sp::pt_in(p, b));
        p
    }
    pub fn any_rect(b: i64) -> Rectangle {
        let r: Rectangle = kani::any();
        kani::assume(sp::rect_in(&r, b));
        r
    }
    pub fn everything() -> Rectangle {
        Rectangle::new(Point::new(-(1 << 29), -(1 << 29)), Size::new(1 << 30, 1 << 30))
    }

    #[derive(Clone, Copy, PartialEq, Eq, Debug)]
    pub struct ProbeState<C> {
        /// the probe point
        pub q: Point,
        /// bounding box reported by the target (arbitrary: non-origin, possibly empty)
        pub bbox: Rectangle,
        /// everything that reaches the target must lie inside this rectangle
        pub allowed: Rectangle,
        /// last colour written to q
        pub last: Option<C>,
        /// number of writes to q
        pub writes: u32,
        /// something outside `allowed` reached the target
        pub escaped: bool,
        /// number of trait-method calls received
        pub calls: u32,
        /// fail the k-th call (1-based; 0 = never) -- used by the C04 fault harnesses
        pub fail_at: u32,
        /// a call arrived after the failed one
        pub called_after_fail: bool,
        pub failed: bool,
        /// running hash of (call kind, area) of the calls received; only the first `log_upto` calls are
        /// logged when log_upto != 0 (used to compare a faulty run with the prefix of the fault-free run)
        pub log: u32,
        pub log_upto: u32,
    }

    impl<C: PixelColor> ProbeState<C> {
        pub fn new(q: Point, bbox: Rectangle, allowed: Rectangle) -> Self {
            Self { q, bbox, allowed, last: None, writes: 0, escaped: false, calls: 0, fail_at: 0, called_after_fail: false, failed: false, log: 0, log_upto: 0 }
        }
        pub fn touch(&mut self, p: Point, c: C) {
            if !sp::contains(&self.allowed, p) {
                self.escaped = true;
            }
            if p.x == self.q.x && p.y == self.q.y {
                self.last = Some(c);
                self.writes += 1;
            }
        }
        pub fn area_in(&mut self, area: &Rectangle) {
            if !sp::subset(area, &self.allowed) {
                self.escaped = true;
            }
        }
        /// call bookkeeping; returns Err(call number) when this call is the one that must fail
        pub fn enter(&mut self) -> Result<(), u32> {
            self.enter_call(0, &Rectangle::new(Point::new(0, 0), Size::new(0, 0)))
        }
        pub fn enter_call(&mut self, kind: u32, area: &Rectangle) -> Result<(), u32> {
            if self.failed {
                self.called_after_fail = true;
            }
            self.calls += 1;
            if self.log_upto == 0 || self.calls <= self.log_upto {
                let h = kind ^ (area.top_left.x as u32) ^ ((area.top_left.y as u32) << 8) ^ (area.size.width << 16) ^ (area.size.height << 24);
                self.log = (self.log << 5).wrapping_sub(self.log) ^ h;
            }
            if self.fail_at != 0 && self.calls == self.fail_at {
                self.failed = true;
                return Err(self.calls);
            }
            Ok(())
        }
    }

    /// Target with native fill_contiguous / fill_solid / clear implementing their documented meaning.
    #[derive(Clone, Copy, PartialEq, Eq, Debug)]
    pub struct ProbeNative<C>(pub ProbeState<C>);
    /// Target that implements draw_iter only and inherits the trait defaults (the real default bodies
    /// in core/src/draw_target/mod.rs are then the code under test).
    #[derive(Clone, Copy, PartialEq, Eq, Debug)]
    pub struct ProbeIter<C>(pub ProbeState<C>);

    impl<C: PixelColor> Dimensions for ProbeNative<C> {
        fn bounding_box(&self) -> Rectangle {
            self.0.bbox
        }
    }
    impl<C: PixelColor> Dimensions for ProbeIter<C> {
        fn bounding_box(&self) -> Rectangle {
            self.0.bbox
        }
    }

    impl<C: PixelColor> DrawTarget for ProbeIter<C> {
        type Color = C;
        type Error = u32;
        fn draw_iter<I>(&mut self, pixels: I) -> Result<(), Self::Error>
        where
            I: IntoIterator<Item = Pixel<C>>,
        {
            self.0.enter()?;
            for Pixel(p, c) in pixels {
                self.0.touch(p, c);
            }
            Ok(())
        }
    }

    impl<C: PixelColor> DrawTarget for ProbeNative<C> {
        type Color = C;
        type Error = u32;
        fn draw_iter<I>(&mut self, pixels: I) -> Result<(), Self::Error>
        where
            I: IntoIterator<Item = Pixel<C>>,
        {
            self.0.enter()?;
            for Pixel(p, c) in pixels {
                self.0.touch(p, c);
            }
            Ok(())
        }
        /// documented meaning: the points of `area` in row-major order paired with the colour stream
        fn fill_contiguous<I>(&mut self, area: &Rectangle, colors: I) -> Result<(), Self::Error>
        where
            I: IntoIterator<Item = C>,
        {
            self.0.enter_call(2, area)?;
            self.0.area_in(area);
            if sp::contains(area, self.0.q) {
                let k = sp::row_major_index(area, self.0.q) as usize;
                if let Some(c) = colors.into_iter().nth(k) {
                    let q = self.0.q;
                    self.0.touch(q, c);
                }
            }
            Ok(())
        }
        fn fill_solid(&mut self, area: &Rectangle, color: C) -> Result<(), Self::Error> {
            self.0.enter_call(3, area)?;
            self.0.area_in(area);
            if sp::contains(area, self.0.q) {
                let q = self.0.q;
                self.0.touch(q, color);
            }
            Ok(())
        }
        fn clear(&mut self, color: C) -> Result<(), Self::Error> {
            let bb = self.0.bbox;
            self.0.enter_call(4, &bb)?;
            if sp::contains(&self.0.bbox, self.0.q) {
                let q = self.0.q;
                self.0.touch(q, color);
            }
            Ok(())
        }
    }

    /// 32 bit test colour (there is no built-in colour with RawU32)
    #[derive(Copy, Clone, Eq, PartialEq, Debug)]
    pub struct ColorU32(pub crate::pixelcolor::raw::RawU32);
    impl PixelColor for ColorU32 {
        type Raw = crate::pixelcolor::raw::RawU32;
    }
    impl From<crate::pixelcolor::raw::RawU32> for ColorU32 {
        fn from(d: crate::pixelcolor::raw::RawU32) -> Self {
            Self(d)
        }
    }
    impl From<ColorU32> for crate::pixelcolor::raw::RawU32 {
        fn from(c: ColorU32) -> Self {
            c.0
        }
    }

    /// Colour stream whose k-th item *is* k (as the 24-bit storage value of an Rgb888): generic colour
    /// adapters never inspect items (parametricity), so an output identifies its source index.
    /// `nth` is closed form: the documented Iterator::nth contract.
    #[derive(Clone, Copy, PartialEq, Eq, Debug)]
    pub struct CountIter {
        pub pos: u32,
        pub len: u32,
    }
    impl CountIter {
        pub fn new(len: u32) -> Self {
            Self { pos: 0, len }
        }
        pub fn color(k: u32) -> Rgb888 {
            Rgb888::from(RawU24::new(k))
        }
        pub fn index(c: Rgb888) -> u32 {
            use crate::pixelcolor::IntoStorage;
            c.into_storage()
        }
    }
    impl Iterator for CountIter {
        type Item = Rgb888;
        fn next(&mut self) -> Option<Rgb888> {
            if self.pos < self.len {
                let c = Self::color(self.pos);
                self.pos += 1;
                Some(c)
            } else {
                None
            }
        }
        fn nth(&mut self, n: usize) -> Option<Rgb888> {
            let n = if n > (u32::MAX as usize) { u32::MAX } else { n as u32 };
            let target = self.pos.saturating_add(n);
            if target < self.len {
                self.pos = target + 1;
                Some(Self::color(target))
            } else {
                self.pos = self.len;
                None
            }
        }
    }
}
//@end
