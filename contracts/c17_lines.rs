//! Unit `c17_lines`: lines connect their end points and stay on the ideal line (property C17).
//@unit c17_lines
//@crate main
//@needs arb probe

//@append src/primitives/line/bresenham.rs
#[cfg(kani)]
#[allow(missing_docs, trivial_casts, trivial_numeric_casts, unused_qualifications, dead_code, unused)]
pub(in crate::primitives) mod verif_c17b {
    use super::*;
    use crate::verif_probe::{any_point, sp};

    pub const DOM: i64 = 1 << 20;

    /// |dx|, |dy| of a line as (major, minor)
    pub fn deltas(line: &Line) -> (i64, i64) {
        let dx = (line.end.x as i64 - line.start.x as i64).abs();
        let dy = (line.end.y as i64 - line.start.y as i64).abs();
        if dy >= dx { (dy, dx) } else { (dx, dy) }
    }
    /// well-formed parameters for deltas (dmajor, dminor): threshold dmajor, error steps 2*dminor and
    /// 2*dmajor, position steps are axis-aligned unit vectors, orthogonal to each other
    pub fn params_ok(p: &BresenhamParameters, dmajor: i64, dminor: i64) -> bool {
        let unit = |v: Point| (v.x == 0 && (v.y == 1 || v.y == -1)) || (v.y == 0 && (v.x == 1 || v.x == -1));
        0 <= dminor && dminor <= dmajor && dmajor <= DOM * 2
            && p.error_threshold as i64 == dmajor
            && p.error_step.major as i64 == 2 * dminor
            && p.error_step.minor as i64 == 2 * dmajor
            && unit(p.position_step.major) && unit(p.position_step.minor)
            && (p.position_step.major.x == 0) != (p.position_step.minor.x == 0)
    }
    impl kani::Arbitrary for BresenhamParameters {
        fn any() -> Self {
            Self {
                error_threshold: kani::any(),
                error_step: MajorMinor::new(kani::any(), kani::any()),
                position_step: MajorMinor::new(Point::new(kani::any(), kani::any()), Point::new(kani::any(), kani::any())),
            }
        }
    }
    /// invariant of the error term at the entry of next(): (-dmajor, dmajor + 2*dminor]
    pub fn inv_entry(e: i64, dmajor: i64, dminor: i64) -> bool {
        (-dmajor < e && e <= dmajor + 2 * dminor) || (dmajor == 0 && e == 0)
    }

    /// BresenhamParameters::new: major/minor decomposition, thresholds and unit steps with the signs
    /// of the deltas; the major axis is y when |dy| >= |dx|.
    //@harness prop=C17,C08 kind=contract tier=quick class=P fns=src/primitives/line/bresenham.rs::BresenhamParameters::new;src/primitives/line/bresenham.rs::major_length
    #[kani::proof]
    fn c17_bresenham_parameters_new() {
        let line = Line::new(any_point(DOM), any_point(DOM));
        let p = BresenhamParameters::new(&line);
        let (dmajor, dminor) = deltas(&line);
        assert!(params_ok(&p, dmajor, dminor));
        let d = Point::new(line.end.x - line.start.x, line.end.y - line.start.y);
        let sx = if d.x >= 0 { 1 } else { -1 };
        let sy = if d.y >= 0 { 1 } else { -1 };
        if d.y.abs() >= d.x.abs() {
            assert!(p.position_step.major == Point::new(0, sy) && p.position_step.minor == Point::new(sx, 0));
        } else {
            assert!(p.position_step.major == Point::new(sx, 0) && p.position_step.minor == Point::new(0, sy));
        }
        assert!(major_length(&line) as i64 == dmajor + 1);
        kani::cover!(d.y.abs() < d.x.abs() && d.x < 0 && d.y > 0);
    }

    /// Step contract of Bresenham::next over ALL states satisfying the invariant, with ghost
    /// accumulators A = sum of 2*dminor (one per major step) and B = sum of 2*dmajor (one per minor
    /// step), error == A - B (no products): the returned point is the old point moved by at most one
    /// minor step, the state advances by exactly one major step, the invariant is re-established and
    /// at emission -dmajor < A - B' <= dmajor, i.e. the point is within half a pixel of the ideal line.
    //@harness prop=C17 kind=step tier=quick class=I fns=src/primitives/line/bresenham.rs::Bresenham::next
    #[kani::proof]
    fn c17_bresenham_next_step() {
        let p: BresenhamParameters = kani::any();
        let (dmajor, dminor): (i64, i64) = (kani::any(), kani::any());
        kani::assume(params_ok(&p, dmajor, dminor));
        let (a, b): (i64, i64) = (kani::any(), kani::any());
        kani::assume(0 <= a && a <= 1 << 44 && 0 <= b && b <= 1 << 44);
        let start = any_point(4 * DOM);
        let mut s = Bresenham::with_initial_error(start, kani::any());
        kani::assume(s.error as i64 == a - b && inv_entry(s.error as i64, dmajor, dminor));
        let o = s;
        let r = s.next(&p);
        let stepped = o.error as i64 > dmajor;
        let b2 = if stepped { b + 2 * dmajor } else { b };
        let a2 = a + 2 * dminor;
        // output and frame
        assert!(r == if stepped { o.point + p.position_step.minor } else { o.point });
        assert!(s.point == r + p.position_step.major);
        assert!(s.error as i64 == a2 - b2);
        assert!(inv_entry(s.error as i64, dmajor, dminor));
        // half-pixel bound at emission
        assert!(dmajor == 0 || (-dmajor < a - b2 && a - b2 <= dmajor));
        kani::cover!(stepped);
        kani::cover!(!stepped && dminor > 0);
    }

    // The arithmetic lemma closing the end-point claim (k == dmajor forces m == dminor) is nonlinear;
    // it is discharged by Verus over mathematical integers: verus/c17_end_point.rs.
}
//@end

//@append src/primitives/line/points.rs
#[cfg(kani)]
#[allow(missing_docs, trivial_casts, trivial_numeric_casts, unused_qualifications, dead_code, unused)]
mod verif_c17p {
    use super::*;
    use crate::primitives::line::bresenham::verif_c17b::{deltas, inv_entry, params_ok, DOM};
    use crate::primitives::PointsIter;
    use crate::verif_probe::any_point;

    /// Points::new: starts at `start`, max(|dx|,|dy|) + 1 points remain, well-formed parameters, error 0
    //@harness prop=C17,C08 kind=contract tier=quick class=P fns=src/primitives/line/points.rs::Points::new
    #[kani::proof]
    fn c17_points_new() {
        let line = Line::new(any_point(DOM), any_point(DOM));
        let p = Points::new(&line);
        let (dmajor, dminor) = deltas(&line);
        assert!(p.points_remaining as i64 == dmajor + 1);
        assert!(params_ok(&p.parameters, dmajor, dminor));
        assert!(p.bresenham == Bresenham::new(line.start));
        let mut q = p;
        assert!(q.next() == Some(line.start));
        kani::cover!(dminor > 0);
    }
    /// Points::next: Some(bresenham.next()) while points remain, then None forever (state unchanged)
    //@harness prop=C17 kind=step tier=quick class=I fns=src/primitives/line/points.rs::Points::next
    #[kani::proof]
    fn c17_points_next_step() {
        let params: BresenhamParameters = kani::any();
        let (dmajor, dminor): (i64, i64) = (kani::any(), kani::any());
        kani::assume(params_ok(&params, dmajor, dminor));
        let e: i32 = kani::any();
        kani::assume(inv_entry(e as i64, dmajor, dminor));
        let mut p = Points { parameters: params, bresenham: Bresenham::with_initial_error(any_point(4 * DOM), e), points_remaining: kani::any() };
        let o = p;
        let r = p.next();
        if o.points_remaining > 0 {
            let mut b = o.bresenham;
            assert!(r == Some(b.next(&params)) && p.bresenham == b && p.points_remaining == o.points_remaining - 1 && p.parameters == o.parameters);
        } else {
            assert!(r.is_none() && p == o);
        }
        kani::cover!(r.is_some());
        kani::cover!(r.is_none());
    }

    /// From the constructor (class P, bounded): every line with |dx|, |dy| <= 6 anywhere within +-1024:
    /// starts at start, ends at end, max(|dx|,|dy|) + 1 points, one major and at most one minor step
    /// between neighbours, every point within half a pixel of the ideal line.
    //@harness prop=C17 kind=bounded tier=quick class=P bound="|dx|, |dy| <= 6 (whole points() sequence), start anywhere in +-1024"
    #[kani::proof]
    #[kani::unwind(9)]
    fn c17_points_from_constructor_bounded() {
        let start = any_point(1024);
        let d = any_point(6);
        let line = Line::new(start, start + d);
        let n = d.x.abs().max(d.y.abs()) + 1;
        let mut it = line.points();
        let mut prev = start;
        let mut k = 0;
        while k < 8 {
            let r = it.next();
            if k < n {
                let p = r.unwrap();
                if k == 0 {
                    assert!(p == start);
                } else {
                    let s = Point::new(p.x - prev.x, p.y - prev.y);
                    assert!(s.x.abs() <= 1 && s.y.abs() <= 1);
                    if d.y.abs() >= d.x.abs() { assert!(s.y.abs() == 1); } else { assert!(s.x.abs() == 1); }
                }
                if k == n - 1 {
                    assert!(p == line.end);
                }
                // half pixel: 2 * |dy*(x-x0) - dx*(y-y0)| <= max(|dx|,|dy|)
                let cross = d.y * (p.x - start.x) - d.x * (p.y - start.y);
                assert!(2 * cross.abs() <= n - 1);
                prev = p;
            } else {
                assert!(r.is_none());
            }
            k += 1;
        }
        kani::cover!(n == 7 && d.x == 3);
    }

    //@harness prop=C17 kind=canary tier=quick class=P expect=fail
    #[kani::proof]
    fn c17_canary() {
        let line = Line::new(any_point(DOM), any_point(DOM));
        let mut p = Points::new(&line);
        let _ = p.next();
        assert!(p.next() == Some(line.end));
    }
}
//@end

//@append src/primitives/line/styled.rs
#[cfg(kani)]
#[allow(missing_docs, trivial_casts, trivial_numeric_casts, unused_qualifications, dead_code, unused)]
mod verif_c17s {
    use super::*;
    use crate::{
        geometry::{Dimensions, Point},
        pixelcolor::Gray8,
        primitives::{PointsIter, Primitive},
        verif_probe::{any_point, any_rect, sp, ProbeIter, ProbeState},
        Drawable,
    };

    /// Stroked line (bounded): contains the thin line, no pixel twice, within w/2 + 2.5 px of the ideal
    /// line, everything inside bounding_box() (C02), width 1 equals points().
    fn thick0(max_d: i32, max_w: u32, unw: usize) {
        thick_at(Point::new(0, 0), max_d, max_w, unw)
    }
    fn thick(max_d: i32, max_w: u32, unw: usize) {
        thick_at(any_point(64), max_d, max_w, unw)
    }
    fn thick_at(start: Point, max_d: i32, max_w: u32, unw: usize) {
        let d = any_point(max_d as i64);
        let line = Line::new(start, start + d);
        let w: u32 = kani::any();
        kani::assume(w >= 1 && w <= max_w);
        let styled = line.into_styled(PrimitiveStyle::with_stroke(Gray8::new(1), w));
        let q = any_point(128);
        let bb = styled.bounding_box();
        let mut t = ProbeIter::<Gray8>(ProbeState::new(q, any_rect(64), bb));
        styled.draw(&mut t).unwrap();
        assert!(t.0.writes <= 1);
        assert!(!t.0.escaped);
        // thin line membership of q (closed form: q is the Bresenham point of its major coordinate)
        let mut on_thin = false;
        let mut it = line.points();
        let mut k = 0;
        while k < unw {
            if let Some(p) = it.next() {
                if p == q {
                    on_thin = true;
                }
            }
            k += 1;
        }
        if on_thin {
            assert!(t.0.writes == 1);
        }
        if w == 1 {
            assert!((t.0.writes == 1) == on_thin);
        }
        if t.0.writes == 1 && (d.x != 0 || d.y != 0) {
            // 2 * cross <= (w + 5) * len  <=>  4 cross^2 <= (w+5)^2 (dx^2 + dy^2)
            let cross = (d.y * (q.x - start.x) - d.x * (q.y - start.y)) as i64;
            let len2 = (d.x * d.x + d.y * d.y) as i64;
            assert!(4 * cross * cross <= (w as i64 + 5) * (w as i64 + 5) * len2);
        }
        kani::cover!(t.0.writes == 1 && !on_thin);
    }
    /// The stroke of a line does not depend on the stroke alignment (lines are open shapes: the stroke is
    /// always centred on the ideal line, which is what keeps it within w/2 + 2.5 px of it): pixels() starts
    /// from the same iterator state for all three alignments.
    /// Constructor-level relational contract through the public styling API, no iteration.
    //@harness prop=C17,C02 kind=contract tier=quick class=P bound="|dx|, |dy| <= 15, start within +-1024, stroke width <= 8" timeout=900 fns=src/primitives/line/styled.rs::StyledPixelsIterator::new;src/primitives/line/thick_points.rs::ThickPoints::new
    #[kani::proof]
    #[kani::unwind(6)]
    fn c17_line_stroke_ignores_alignment() {
        use crate::primitives::StrokeAlignment;
        let start = any_point(1024);
        let d = Point::new((kani::any::<u8>() & 31) as i32 - 16, (kani::any::<u8>() & 31) as i32 - 16);
        let line = Line::new(start, start + d);
        let w: u32 = (kani::any::<u8>() & 15) as u32;
        kani::assume(w <= 8);
        let mk = |al: StrokeAlignment| {
            let mut s = PrimitiveStyle::with_stroke(Gray8::new(1), w);
            s.stroke_alignment = al;
            s
        };
        let (sc, si, so) = (mk(StrokeAlignment::Center), mk(StrokeAlignment::Inside), mk(StrokeAlignment::Outside));
        let (a, b, c) = (StyledPixelsIterator::new(&line, &sc), StyledPixelsIterator::new(&line, &si), StyledPixelsIterator::new(&line, &so));
        assert!(a.line_iter == b.line_iter && a.line_iter == c.line_iter);
        assert!(a.stroke_color == b.stroke_color && a.stroke_color == c.stroke_color);
        kani::cover!(w == 8 && d.x == 15 && d.y == -7);
    }

    //@harness prop=C17,C02 kind=bounded tier=thorough class=P bound="|dx|, |dy| <= 3, stroke width <= 3, start within +-64" timeout=3000 fns=src/primitives/line/styled.rs::Line::draw_styled;src/primitives/line/thick_points.rs::ThickPoints;src/primitives/line/thick_points.rs::ParallelsIterator;src/primitives/line/styled.rs::Line::styled_bounding_box
    #[kani::proof]
    #[kani::unwind(8)]
    fn c17_thick_line_bounded() {
        thick(3, 3, 5);
    }
    //@harness prop=C17,C02 kind=bounded tier=thorough class=P bound="|dx|, |dy| <= 2, stroke width <= 2, start (0,0)" timeout=3000 fns=src/primitives/line/styled.rs::Line::draw_styled
    #[kani::proof]
    #[kani::unwind(6)]
    fn c17_thick_line_small() {
        thick0(2, 2, 4);
    }
    //@harness prop=C17,C02 kind=bounded tier=thorough class=P bound="|dx|, |dy| <= 5, stroke width <= 5, start within +-64" timeout=3000
    #[kani::proof]
    #[kani::unwind(12)]
    fn c17_thick_line_bounded_thorough() {
        thick(5, 5, 7);
    }
}
//@end

//@append src/primitives/line/thick_points.rs
#[cfg(kani)]
#[allow(missing_docs, trivial_casts, trivial_numeric_casts, unused_qualifications, dead_code, unused)]
mod verif_c17t {
    use super::*;
    use crate::verif_probe::any_point;

    fn small_delta(bits: u8) -> Point {
        let m = (1u16 << bits) - 1;
        let h = 1i32 << (bits - 1);
        Point::new((kani::any::<u16>() & m) as i32 - h, (kani::any::<u16>() & m) as i32 - h)
    }

    /// "For width 1 the stroke equals points()": the stroke iterator of a width 1 line starts with no
    /// current parallel, its first parallel is the centre line -- the thin line's own Bresenham state
    /// (start point, error 0) with the thin line's parameters and full length -- and there is no second
    /// parallel. With the flattening step below and the Bresenham step contract this is points().
    //@harness prop=C17 kind=contract tier=quick class=P bound="|dx|, |dy| < 512, start within +-1024" timeout=900 kani="--no-assertion-reach-checks" fns=src/primitives/line/thick_points.rs::ThickPoints::new;src/primitives/line/thick_points.rs::ParallelsIterator::new;src/primitives/line/thick_points.rs::ParallelsIterator::next;src/primitives/line/thick_points.rs::ParallelsIterator::next_parallel
    #[kani::proof]
    #[kani::unwind(4)]
    fn c17_thick_width1_is_thin_line() {
        let start = any_point(1024);
        let d = small_delta(10);
        let line = Line::new(start, start + d);
        let tp = ThickPoints::new(&line, 1);
        assert!(tp.parallel_points_remaining == 0 && tp.parallel_length == bresenham::major_length(&line));
        let mut it = tp.iter;
        let first = it.next();
        assert!(first == Some((Bresenham::new(line.start), ParallelLineType::Normal)));
        assert!(it.next().is_none());
        if d.x != 0 || d.y != 0 {
            assert!(tp.iter.parallel_parameters == BresenhamParameters::new(&line));
        }
        kani::cover!(d.x == 300 && d.y == -7);
        kani::cover!(d.x == 0 && d.y == 0);
    }

    /// ThickPoints::next flattens the parallels: inside a parallel it yields that parallel's next
    /// Bresenham point and counts down, the parallels iterator is untouched; when the parallel is used up
    /// it takes the next parallel (Normal: full major length, Extra: one pixel shorter) and yields its
    /// first point; no further parallel ends the iteration.
    //@harness prop=C17 kind=step tier=quick class=I bound="parallels iterator states reached from the constructor after 0..=1 steps; |dx|, |dy| < 16, width <= 8; major length >= 2" timeout=900 kani="--no-assertion-reach-checks" fns=src/primitives/line/thick_points.rs::ThickPoints::next
    #[kani::proof]
    #[kani::unwind(4)]
    fn c17_thick_points_step() {
        let start = any_point(1024);
        let d = small_delta(5);
        let line = Line::new(start, start + d);
        let w = (kani::any::<u8>() & 15) as i32;
        kani::assume(w <= 8);
        let tp0 = ThickPoints::new(&line, w);
        kani::assume(tp0.parallel_length >= 2);
        let mut it = tp0.iter;
        if kani::any() {
            let _ = it.next();
        }
        let par = Bresenham::with_initial_error(any_point(2048), (kani::any::<i16>() as i32) / 8);
        // inside a parallel
        let r: u32 = kani::any();
        kani::assume(r >= 1 && r <= 4096);
        let mut tp = ThickPoints { parallel: par, parallel_length: tp0.parallel_length, parallel_points_remaining: r, iter: it };
        let mut par2 = par;
        let want = par2.next(&it.parallel_parameters);
        assert!(tp.next() == Some(want));
        assert!(tp.parallel == par2 && tp.parallel_points_remaining == r - 1 && tp.iter == it && tp.parallel_length == tp0.parallel_length);
        // parallel used up
        let mut tp = ThickPoints { parallel: par, parallel_length: tp0.parallel_length, parallel_points_remaining: 0, iter: it };
        let mut it2 = it;
        let got = tp.next();
        match it2.next() {
            None => assert!(got.is_none()),
            Some((mut b, ty)) => {
                let len = tp0.parallel_length - if ty == ParallelLineType::Extra { 1 } else { 0 };
                let first = b.next(&it.parallel_parameters);
                assert!(got == Some(first));
                assert!(tp.parallel == b && tp.parallel_points_remaining == len - 1 && tp.iter == it2);
            }
        }
        kani::cover!(got.is_some());
        kani::cover!(got.is_none());
    }
}
//@end
