// Verus lemma (nonlinear integer arithmetic over mathematical integers) closing the end-point claim
// of C17: Bresenham's step contract (proved by Kani on the real code, unit c17_lines) gives, at the
// emission of the point with k major steps and m minor steps,  -dmajor < 2*dminor*k - 2*dmajor*m <= dmajor.
// For k == dmajor this forces m == dminor, i.e. the last of the dmajor + 1 points is `end`.
// The same inequality is the half-pixel bound: |m - k*dminor/dmajor| <= 1/2.
use vstd::prelude::*;
verus! {

pub proof fn c17_end_point(dmajor: int, dminor: int, m: int)
    requires
        1 <= dmajor,
        0 <= dminor <= dmajor,
        -dmajor < 2 * dminor * dmajor - 2 * dmajor * m,
        2 * dminor * dmajor - 2 * dmajor * m <= dmajor,
    ensures
        m == dminor,
{
    // 2*dmajor*(dminor - m) lies in (-dmajor, dmajor]  =>  dminor - m == 0
    assert(2 * dminor * dmajor - 2 * dmajor * m == 2 * dmajor * (dminor - m)) by (nonlinear_arith);
    if dminor - m >= 1 {
        assert(2 * dmajor * (dminor - m) >= 2 * dmajor) by (nonlinear_arith)
            requires dminor - m >= 1, dmajor >= 1;
    }
    if dminor - m <= -1 {
        assert(2 * dmajor * (dminor - m) <= -2 * dmajor) by (nonlinear_arith)
            requires dminor - m <= -1, dmajor >= 1;
    }
}

// ghost accumulators of the step contract are the products they stand for (induction over steps)
pub proof fn c17_accumulator_is_product(k: nat, dminor: int)
    ensures acc(k, dminor) == 2 * dminor * (k as int),
    decreases k,
{
    if k > 0 {
        c17_accumulator_is_product((k - 1) as nat, dminor);
        assert(2 * dminor * ((k - 1) as int) + 2 * dminor == 2 * dminor * (k as int)) by (nonlinear_arith);
    } else {
        assert(2 * dminor * 0 == 0) by (nonlinear_arith);
    }
}
pub open spec fn acc(k: nat, dminor: int) -> int
    decreases k,
{
    if k == 0 { 0 } else { acc((k - 1) as nat, dminor) + 2 * dminor }
}

} // verus!
fn main() {}
